// Package c16 monitors property C16: shapefile write followed by read returns
// the same geometries and attributes.
package c16

import (
	"fmt"
	"math"
	"os"
	"path/filepath"
	"reflect"
	"strconv"
	"strings"
	"unicode/utf8"

	"github.com/ctessum/geom"
	"github.com/ctessum/geom/encoding/shp"
	goshp "github.com/jonas-p/go-shp"

	"verifharness/internal/core"
	"verifharness/internal/gen"
)

func init() {
	core.Register(&core.Prop{
		ID: "C16",
		Rule: "case = one shapefile of 0-60 (300 thorough; 2.5%: 1023..4097) records of one geometry kind (Point, MultiPoint, LineString, MultiLineString of 1-6 parts, Polygon of 1-5 closed, unclosed or unclosed-by-a-hair rings (last vertex one ulp .. 1e-10 relative from the first), *Bounds, nil geometry) with 1-6 attribute columns (int within ten characters, float whose %.10f fits 30 characters, NUL-free string of 0-50 bytes: ASCII, UTF-8, internal blanks, tabs; leading/trailing blanks as their own category) in random column order, written through NewEncoder/Encode with a reflect-built archetype struct (shp tags and bare mixed-case names; 15% of schemas with >= 2 columns have a crossed pair: each field tagged with the other's lower-cased name and the same struct read back, so the tag must win over the name) or NewEncoderFromFields/EncodeFields, and read back through DecodeRow (struct with differently-cased names/tags, the geometry field at a random position; 35% of the files alternate row by row between two record types with different field order through one Decoder) or DecodeRowFields; oracle = the list of records written; " +
			"an evaluation is one record compared; non-trivial = file with >= 2 records and >= 2 columns; distinct by content hash",
		Assumptions: []string{"coordinates are finite bit patterns compared bitwise", "documented images: LineString -> one-part MultiLineString, unclosed ring -> closed, *Bounds -> 5-vertex rectangle", "files are written to a per-run scratch directory under /verif/.build and removed"},
		Phases: []core.Phase{{Name: "files", NumCases: func(t string) int {
			if t == "thorough" {
				return 20000
			}
			return 480
		}}},
		Run: run,
		Floors: func(t string) map[string]int64 {
			return map[string]int64{"api.struct": 100, "api.fields": 100, "kind.Point": 8, "kind.MultiPoint": 8, "kind.LineString": 8, "kind.MultiLineString": 8, "kind.Polygon": 8, "kind.*Bounds": 8,
				"records.compared": 3000, "decode.geometry_field_of_concrete_type": 30, "string.last_column": 50, "string.with_edge_blanks": 200, "ring.unclosed": 200, "ring.unclosed_by_a_hair": 100, "file.empty": 3, "column.string": 100, "column.int": 100, "column.float": 100, "string.at_field_width": 20, "schema.crossed_tags_and_names": 20, "decode.alternating_record_types": 30, "decode.some_records_geometry_only": 60, "write.encode_and_encodefields_mixed_on_one_encoder": 30, "box.degenerate": 50, "schema.eleven_byte_names_sharing_ten": 20, "schema.names_longer_than_the_dbf_field": 20, "schema.long_name_cut_inside_a_two_byte_letter": 8, "schema.tag_names_no_column_but_the_field_name_does": 100, "schema.names_the_file_stores_differently": 8, "file.more_than_1000_records": 1}
		},
	})
}

type column struct {
	kind    string // int | float | string
	encName string // struct field name used for encoding
	tag     string // shp tag ("" = bare name)
	dbf     string // expected attribute name in the file
	decName string // struct field name used for decoding
	decTag  string
}

type record struct {
	g    geom.Geom
	vals []interface{}
}

var kinds = []string{"Point", "MultiPoint", "LineString", "MultiLineString", "Polygon", "*Bounds", "Polygon", "MultiLineString"}

func finite(r *gen.R) float64 {
	if r.Chance(0.5) {
		return r.Range(-1000, 1000)
	}
	return gen.FiniteBitsCoord(r)
}

func pts(r *gen.R, n int) []geom.Point {
	o := make([]geom.Point, n)
	for i := range o {
		o[i] = geom.Point{X: finite(r), Y: finite(r)}
	}
	return o
}

func genGeom(c *core.Ctx, r *gen.R, kind string) geom.Geom {
	switch kind {
	case "Point":
		return pts(r, 1)[0]
	case "MultiPoint":
		return geom.MultiPoint(pts(r, r.IntRange(1, 6)))
	case "LineString":
		return geom.LineString(pts(r, r.IntRange(2, 8)))
	case "MultiLineString":
		m := make(geom.MultiLineString, r.IntRange(1, 6))
		for i := range m {
			m[i] = pts(r, r.IntRange(2, 6))
		}
		return m
	case "Polygon":
		m := make(geom.Polygon, r.IntRange(1, 5))
		for i := range m {
			ring := pts(r, r.IntRange(3, 7))
			switch r.Intn(5) {
			case 0, 1:
				ring = append(ring, ring[0])
			case 2:
				// unclosed by a hair: the last vertex is the first one moved by one ulp to a
				// relative 1e-10 (a ring that was closed before a re-projection): still unclosed,
				// so the writer must add the closing vertex
				f := ring[0]
				nudge := func(v float64) float64 {
					if r.Bool() {
						return math.Nextafter(v, math.Inf(1-2*r.Intn(2)))
					}
					return v * (1 + math.Pow(10, r.Range(-15, -10))*float64(1-2*r.Intn(2)))
				}
				q := geom.Point{X: nudge(f.X), Y: f.Y}
				if r.Bool() {
					q = geom.Point{X: nudge(f.X), Y: nudge(f.Y)}
				}
				if q != f {
					ring = append(ring, q)
					c.Count("ring.unclosed_by_a_hair")
				}
				c.Count("ring.unclosed")
			default:
				c.Count("ring.unclosed")
			}
			m[i] = ring
		}
		return m
	case "*Bounds":
		a, b := pts(r, 1)[0], pts(r, 1)[0]
		if r.Chance(0.15) {
			// a box of zero width, zero height, or both: still written as a five-vertex rectangle
			switch r.Intn(3) {
			case 0:
				b.X = a.X
			case 1:
				b.Y = a.Y
			default:
				b = a
			}
			c.Count("box.degenerate")
		}
		return &geom.Bounds{Min: geom.Point{X: math.Min(a.X, b.X), Y: math.Min(a.Y, b.Y)}, Max: geom.Point{X: math.Max(a.X, b.X), Y: math.Max(a.Y, b.Y)}}
	}
	return nil
}

// expected image of a geometry after write+read.
func image(g geom.Geom) geom.Geom {
	switch t := g.(type) {
	case geom.LineString:
		return geom.MultiLineString{t}
	case geom.Polygon:
		o := make(geom.Polygon, len(t))
		for i, ring := range t {
			o[i] = append(geom.Path{}, ring...)
			if len(ring) > 0 && ring[0] != ring[len(ring)-1] {
				o[i] = append(o[i], ring[0])
			}
		}
		return o
	case *geom.Bounds:
		return geom.Polygon{{t.Min, {X: t.Max.X, Y: t.Min.Y}, t.Max, {X: t.Min.X, Y: t.Max.Y}, t.Min}}
	}
	return g
}

var alphabet = []string{"a", "B", "z", "0", "9", "_", "-", ".", ",", "é", "ß", "世", "界", "\t", "'", "\"", "%", "/"}

func genString(c *core.Ctx, r *gen.R) string {
	n := r.IntRange(0, 20)
	var b strings.Builder
	for i := 0; i < n; i++ {
		ch := alphabet[r.Intn(len(alphabet))]
		if r.Chance(0.15) && i > 0 && i < n-1 {
			ch = " "
		}
		if b.Len()+len(ch) > 46 {
			break
		}
		b.WriteString(ch)
	}
	s := b.String()
	s = strings.Trim(s, " ")
	if r.Chance(0.08) {
		// exactly at / just below the 50-byte field width, with a multi-byte rune at the end
		for len(s) < 47 {
			s += alphabet[r.Intn(10)]
		}
		s = s[:47]
		for !utf8.ValidString(s) {
			s = s[:len(s)-1]
		}
		switch r.Intn(3) {
		case 0:
			s += "世" // 50 bytes when s has 47
		case 1:
			s += "ab"
		default:
			s += "abc"
		}
	}
	if r.Chance(0.12) {
		// leading / trailing blanks: their own category
		c.Count("string.with_edge_blanks")
		if r.Bool() {
			s = " " + s
		}
		if r.Bool() || !strings.HasPrefix(s, " ") {
			s = s + strings.Repeat(" ", r.IntRange(1, 2))
		}
	}
	if len(s) > 50 {
		s = s[:50]
		for !utf8.ValidString(s) {
			s = s[:len(s)-1]
		}
	}
	if len(s) >= 49 {
		c.Count("string.at_field_width")
	}
	return s
}

func genVal(c *core.Ctx, r *gen.R, kind string) interface{} {
	switch kind {
	case "int":
		switch r.Intn(5) {
		case 0:
			return 0
		case 1:
			return -999999999
		case 2:
			return 9999999999
		}
		return r.IntRange(-999999999, 999999999)
	case "float":
		switch r.Intn(6) {
		case 0:
			return 0.0
		case 1:
			return r.Range(-1, 1) * 1e-7
		case 2:
			return r.Range(-1, 1) * 1e15
		case 3:
			return float64(r.IntRange(-1000, 1000))
		}
		return r.Range(-1e6, 1e6)
	}
	return genString(c, r)
}

var nameParts = []string{"Pop", "Name", "Area", "Code", "Val", "Len", "Id", "Kind", "Rate", "Note"}

func genColumns(r *gen.R) []column {
	n := r.IntRange(1, 6)
	used := map[string]bool{}
	var cols []column
	for len(cols) < n {
		base := nameParts[r.Intn(len(nameParts))] + strconv.Itoa(r.Intn(90))
		if used[strings.ToLower(base)] {
			continue
		}
		used[strings.ToLower(base)] = true
		col := column{kind: []string{"int", "float", "string"}[r.Intn(3)], encName: base}
		if r.Bool() {
			col.tag = strings.ToLower(base) + "t"
			if r.Bool() {
				col.tag = strings.ToUpper(col.tag[:1]) + col.tag[1:] // tags are case-insensitive
			}
			col.dbf = strings.ToLower(col.tag)
		} else {
			col.dbf = base
		}
		// decode side: different case, tag or bare name
		switch r.Intn(4) {
		case 3:
			// a tag that names no attribute of the file on a field whose name does (up to case):
			// "matched by tag or name" - the name then decides
			col.decName, col.decTag = strings.ToUpper(col.dbf[:1])+strings.ToLower(col.dbf[1:]), "q"+strconv.Itoa(len(cols))+"zz"
			tagMiss = true
		case 0:
			col.decName, col.decTag = "X"+base, strings.ToUpper(col.dbf)
		case 1:
			col.decName, col.decTag = "Y"+base, strings.ToLower(col.dbf)
		default:
			// bare field name equal to the attribute name up to case
			nm := strings.ToUpper(col.dbf[:1]) + strings.ToLower(col.dbf[1:])
			col.decName = nm
		}
		cols = append(cols, col)
	}
	if r.Chance(0.08) {
		// attribute names that the file stores in a different form: letters whose lower-case form
		// has another byte length (the struct API writes tags in lower case and the file then cuts
		// them; the field API writes names as given), a blank where the file cuts the name, blanks
		// at the ends. The same struct / the same requested name must find its column.
		for i := range cols {
			if i >= 4 {
				break
			}
			u := string(rune('A' + i))
			nm := []string{u + "İSTANBUL_NUFUS", u + "STRAẞE_NUMMER", strings.ToLower(u) + "opulation total", " " + strings.ToLower(u) + "x", strings.ToLower(u) + "x "}[r.Intn(5)]
			cols[i].tag, cols[i].dbf, cols[i].decTag = nm, nm, nm
			cols[i].encName, cols[i].decName = "F"+u+strconv.Itoa(i), "G"+u+strconv.Itoa(i)
		}
		oddNames = true
		return cols
	}
	if r.Chance(0.1) {
		// names longer than the 11 bytes a DBF field name holds (distinct within those 11 bytes):
		// the file stores the shortened name, the same struct / the same requested name must find it
		for i := range cols {
			if i >= 9 {
				break
			}
			nm := string(rune('A'+i)) + "ttribute" + string(rune('a'+r.Intn(26))) + "WithALongName"[:r.IntRange(3, 13)]
			if r.Chance(0.3) {
				// a two-byte letter across the cut: the file keeps its first byte only
				nm = nm[:10] + []string{"é", "Ø", "ñ", "ß"}[r.Intn(4)] + nm[10:]
				cutInRune = true
			}
			cols[i].encName, cols[i].tag, cols[i].dbf = nm, "", nm
			cols[i].decName, cols[i].decTag = nm, ""
			if r.Chance(0.3) {
				cols[i].tag, cols[i].decTag = strings.ToLower(nm)+"x", strings.ToUpper(nm)+"X"
				cols[i].dbf = cols[i].tag
			}
		}
		longerNames = true
		return cols
	}
	if len(cols) >= 2 && r.Chance(0.12) {
		// names of the full 11 bytes a DBF field name can hold that share their first 10 bytes
		stem := ""
		for len(stem) < 10 {
			stem += string(rune('a' + r.Intn(26)))
		}
		stem = strings.ToUpper(stem[:1]) + stem[1:]
		for i := range cols {
			if i >= 9 {
				break
			}
			nm := stem + string(rune('1'+i))
			cols[i].encName, cols[i].tag, cols[i].dbf = nm, "", nm
			cols[i].decName, cols[i].decTag = nm, ""
			if r.Chance(0.3) {
				cols[i].decName, cols[i].decTag = "Q"+nm[:8]+string(rune('a'+i)), strings.ToUpper(nm)
			}
		}
		longNames = true
		return cols
	}
	if len(cols) >= 2 && r.Chance(0.15) {
		// crossed tags: each of two fields is tagged with the other's (lower-cased) Go name, and
		// the same struct is used for reading, so an attribute name equals one field's tag and,
		// up to case, the other field's name; the tag decides
		i, j := 0, 1+r.Intn(len(cols)-1)
		cols[i].tag, cols[j].tag = strings.ToLower(cols[j].encName), strings.ToLower(cols[i].encName)
		cols[i].dbf, cols[j].dbf = cols[i].tag, cols[j].tag
		cols[i].decName, cols[i].decTag = cols[i].encName, cols[i].tag
		cols[j].decName, cols[j].decTag = cols[j].encName, cols[j].tag
		crossed = true
	}
	return cols
}

// crossed / longNames report what the last genColumns call produced.
var crossed, longNames, longerNames, cutInRune, tagMiss, oddNames bool

func goType(kind string) reflect.Type {
	switch kind {
	case "int":
		return reflect.TypeOf(int(0))
	case "float":
		return reflect.TypeOf(float64(0))
	}
	return reflect.TypeOf("")
}

func geomType(kind string) reflect.Type {
	switch kind {
	case "Point":
		return reflect.TypeOf(geom.Point{})
	case "MultiPoint":
		return reflect.TypeOf(geom.MultiPoint{})
	case "LineString":
		return reflect.TypeOf(geom.LineString{})
	case "MultiLineString":
		return reflect.TypeOf(geom.MultiLineString{})
	case "Polygon":
		return reflect.TypeOf(geom.Polygon{})
	}
	return reflect.TypeOf(&geom.Bounds{})
}

func shapeType(kind string) goshp.ShapeType {
	switch kind {
	case "Point":
		return goshp.POINT
	case "MultiPoint":
		return goshp.MULTIPOINT
	case "LineString", "MultiLineString":
		return goshp.POLYLINE
	}
	return goshp.POLYGON
}

func run(c *core.Ctx, idx int) {
	r := c.R
	kind := kinds[r.Intn(len(kinds))]
	structAPI := r.Bool()
	crossed, longNames, longerNames, cutInRune, tagMiss, oddNames = false, false, false, false, false, false
	cols := genColumns(r)
	if longNames {
		c.Count("schema.eleven_byte_names_sharing_ten")
	}
	if oddNames {
		c.Count("schema.names_the_file_stores_differently")
	}
	if tagMiss {
		c.Count("schema.tag_names_no_column_but_the_field_name_does")
	}
	if cutInRune {
		c.Count("schema.long_name_cut_inside_a_two_byte_letter")
	}
	if longerNames {
		c.Count("schema.names_longer_than_the_dbf_field")
	}
	if crossed {
		c.Count("schema.crossed_tags_and_names")
	}
	maxRec := 60
	if c.Thorough() && r.Chance(0.1) {
		maxRec = 300
	}
	nrec := r.IntRange(0, maxRec)
	if r.Chance(0.03) {
		nrec = 0
	}
	if r.Chance(0.025) {
		// more than a thousand records (counts on both sides of 1024, 2048, 4096)
		nrec = []int{1023, 1024, 1025, 1500, 2047, 2049, 2500, 4097}[r.Intn(8)]
		c.Count("file.more_than_1000_records")
	}
	geomPos := r.Intn(len(cols) + 1) // position of the geometry field in the struct
	withNil := false                 // a nil geometry is outside the property (and go-shp cannot write a Null record into a typed file)
	var recs []record
	for i := 0; i < nrec; i++ {
		rec := record{g: genGeom(c, r, kind)}
		if withNil && r.Chance(0.3) {
			rec.g = nil
			c.Count("kind.nil")
		}
		for _, col := range cols {
			rec.vals = append(rec.vals, genVal(c, r, col.kind))
		}
		recs = append(recs, rec)
	}
	c.Count("kind." + kind)
	for _, col := range cols {
		c.Count("column." + col.kind)
	}
	if cols[len(cols)-1].kind == "string" {
		c.Count("string.last_column")
	}
	if nrec == 0 {
		c.Count("file.empty")
	}
	api := "fields"
	if structAPI {
		api = "struct"
	}
	c.Count("api." + api)
	h := core.NewHasher().Str(kind).Str(api)
	for _, col := range cols {
		h.Str(col.kind).Str(col.dbf)
	}
	for _, rec := range recs {
		if rec.g != nil {
			gen.HashGeom(h, rec.g)
		}
		h.Str(fmt.Sprint(rec.vals...))
	}
	if nrec >= 2 && len(cols) >= 2 {
		c.Nontrivial(h.Sum())
	}
	colDesc := make([]string, len(cols))
	for i, col := range cols {
		colDesc[i] = col.kind + ":" + col.dbf
	}
	detail := map[string]interface{}{"api": api, "kind": kind, "columns": colDesc, "records": nrec, "geometry_field_position": geomPos}
	if c.WantSample() && nrec > 0 {
		d := map[string]interface{}{"api": api, "kind": kind, "columns": colDesc, "records": nrec, "first_record_values": fmt.Sprintf("%q", recs[0].vals)}
		if recs[0].g != nil {
			d["first_record_geometry"] = gen.Dump(recs[0].g)
		}
		c.Sample(d)
	}
	base := filepath.Join(c.ScratchDir, fmt.Sprintf("f%d", idx))
	defer func() {
		for _, ext := range []string{".shp", ".shx", ".dbf"} {
			os.Remove(base + ext)
		}
	}()

	// ---- write
	var encT reflect.Type
	if structAPI {
		var fs []reflect.StructField
		for i := 0; i <= len(cols); i++ {
			if i == geomPos {
				fs = append(fs, reflect.StructField{Name: "Shape", Type: geomType(kind)})
			}
			if i < len(cols) {
				f := reflect.StructField{Name: cols[i].encName, Type: goType(cols[i].kind)}
				if cols[i].tag != "" {
					f.Tag = reflect.StructTag(`shp:"` + cols[i].tag + `"`)
				}
				fs = append(fs, f)
			}
		}
		encT = reflect.StructOf(fs)
	}
	if c.Guard("write:"+api, detail, func() {
		var e *shp.Encoder
		var err error
		if structAPI {
			e, err = shp.NewEncoder(base+".shp", reflect.New(encT).Elem().Interface())
		} else {
			var fields []goshp.Field
			for _, col := range cols {
				switch col.kind {
				case "int":
					fields = append(fields, goshp.NumberField(col.dbf, 10))
				case "float":
					fields = append(fields, goshp.FloatField(col.dbf, 30, 10))
				default:
					fields = append(fields, goshp.StringField(col.dbf, 50))
				}
			}
			e, err = shp.NewEncoderFromFields(base+".shp", shapeType(kind), fields...)
		}
		if err != nil {
			panic("harness: cannot create " + base + ": " + err.Error())
		}
		// the two write calls mixed on one encoder made from a struct: they share the row counter
		mixed := structAPI && c.R.Chance(0.3)
		if mixed && len(recs) >= 2 {
			c.Count("write.encode_and_encodefields_mixed_on_one_encoder")
		}
		for i, rec := range recs {
			if structAPI && !(mixed && c.R.Chance(0.4)) {
				v := reflect.New(encT).Elem()
				v.FieldByName("Shape").Set(reflect.ValueOf(rec.g))
				for k, col := range cols {
					v.FieldByName(col.encName).Set(reflect.ValueOf(rec.vals[k]))
				}
				err = e.Encode(v.Interface())
			} else {
				err = e.EncodeFields(rec.g, rec.vals...)
			}
			if err != nil {
				c.Violate("encode-error:"+api, fmt.Sprintf("record %d: encode error: %v", i, err), detail)
				break
			}
		}
		e.Close()
	}) {
		return
	}
	if c.Violations() > 0 && false {
		return
	}

	// ---- read back
	c.Guard("read:"+api, detail, func() {
		d, err := shp.NewDecoder(base + ".shp")
		if err != nil {
			c.Violate("open-error:"+api, fmt.Sprintf("cannot open the file just written: %v", err), detail)
			return
		}
		defer d.Close()
		var decT, decT2 reflect.Type
		if structAPI {
			// two record types for the same file: the columns in a different order, the geometry
			// field at a different position, and (second type) one field no attribute matches;
			// 35% of the files are read alternating between the two, row by row, through one Decoder
			// 40% of the files are read into records whose geometry field has the concrete type the
			// records were written from (a box comes back as a polygon), not the interface type
			concrete := r.Chance(0.4)
			if concrete {
				c.Count("decode.geometry_field_of_concrete_type")
				c.Count("decode.concrete_field." + kind)
			}
			mk := func(order []int, geomAt int, extra bool) reflect.Type {
				var fs []reflect.StructField
				gf := reflect.StructField{Name: "Geom", Type: reflect.TypeOf((*geom.Geom)(nil)).Elem()}
				if concrete {
					gf.Type = geomType(kind)
					if kind == "*Bounds" {
						gf.Type = reflect.TypeOf(geom.Polygon{})
					}
				}
				for pos, k := range order {
					if pos == geomAt {
						fs = append(fs, gf)
					}
					col := cols[k]
					f := reflect.StructField{Name: col.decName, Type: goType(col.kind)}
					if col.decTag != "" {
						f.Tag = reflect.StructTag(`shp:"` + col.decTag + `"`)
					}
					fs = append(fs, f)
				}
				if geomAt >= len(order) {
					fs = append(fs, gf)
				}
				if extra {
					fs = append(fs, reflect.StructField{Name: "ZzNoSuchAttribute", Type: reflect.TypeOf(0)})
				}
				return reflect.StructOf(fs)
			}
			id := make([]int, len(cols))
			for i := range id {
				id[i] = i
			}
			decT = mk(id, r.Intn(len(cols)+1), false)
			decT2 = decT
			if r.Chance(0.35) {
				decT2 = mk(r.Perm(len(cols)), r.Intn(len(cols)+1), r.Bool())
				c.Count("decode.alternating_record_types")
			}
		}
		names := make([]string, len(cols))
		for i, col := range cols {
			names[i] = col.dbf
			if i%2 == 1 {
				names[i] = strings.ToUpper(col.dbf) // field lookup is case-insensitive
			}
		}
		n := 0
		peek := r.Chance(0.25) // some records are read for their geometry only: DecodeRowFields without names
		if peek {
			c.Count("decode.some_records_geometry_only")
		}
		for {
			var g geom.Geom
			got := make([]interface{}, len(cols))
			if peek && r.Chance(0.35) {
				gg, _, more := d.DecodeRowFields()
				if !more {
					break
				}
				g, got = gg, nil
			} else if structAPI {
				dt := decT
				if n%2 == 1 {
					dt = decT2
				}
				pv := reflect.New(dt)
				if !d.DecodeRow(pv.Interface()) {
					break
				}
				if gv := pv.Elem().FieldByName("Geom"); gv.Kind() != reflect.Interface {
					g = gv.Interface().(geom.Geom)
					if ls, ok := g.(geom.LineString); ok {
						g = geom.MultiLineString{ls} // compared with the image of the written line string
					}
				} else if !gv.IsNil() {
					g = gv.Interface().(geom.Geom)
				}
				for k, col := range cols {
					got[k] = pv.Elem().FieldByName(col.decName).Interface()
				}
			} else {
				gg, fields, more := d.DecodeRowFields(names...)
				if !more {
					break
				}
				g = gg
				for k := range cols {
					got[k] = fields[names[k]]
				}
			}
			if n >= len(recs) {
				c.Violate("extra-records:"+api, fmt.Sprintf("read more than the %d records written", len(recs)), detail)
				return
			}
			c.Eval()
			c.Count("records.compared")
			compare(c, api, kind, cols, n, recs[n], g, got, detail)
			n++
			if n > len(recs)+5 {
				break
			}
		}
		if err := d.Error(); err != nil {
			c.Violate("decode-error:"+api, fmt.Sprintf("Error() after reading %d of %d records: %v", n, len(recs), err), detail)
			return
		}
		if n != len(recs) {
			c.Violate("record-count:"+api, fmt.Sprintf("read %d records, wrote %d", n, len(recs)), detail)
		}
	})
}

func compare(c *core.Ctx, api, kind string, cols []column, n int, want record, g geom.Geom, got []interface{}, detail map[string]interface{}) {
	// geometry
	wg := image(want.g)
	if want.g == nil {
		if g != nil {
			c.Violate("geometry:nil", fmt.Sprintf("record %d: nil geometry read back as %T", n, g), detail)
		}
	} else if ok, why := gen.SameStructure(wg, g); !ok {
		d := map[string]interface{}{"written": gen.Dump(want.g), "expected_image": gen.Dump(wg), "read": gen.Dump(g)}
		for k, v := range detail {
			d[k] = v
		}
		c.Violate("geometry:"+kind+":"+api, fmt.Sprintf("record %d (%s): geometry differs: %s", n, kind, why), d)
	}
	// attributes (not for a record that was read for its geometry only)
	if got == nil {
		return
	}
	for k, col := range cols {
		w := want.vals[k]
		last := k == len(cols)-1
		pos := "inner-column"
		if last {
			pos = "last-column"
		}
		d := func() map[string]interface{} {
			m := map[string]interface{}{"record": n, "column": col.dbf, "column_index": k, "written": fmt.Sprintf("%q", fmt.Sprint(w)), "read": fmt.Sprintf("%q", fmt.Sprint(got[k]))}
			for kk, v := range detail {
				m[kk] = v
			}
			return m
		}
		switch col.kind {
		case "int":
			var gi int64
			switch t := got[k].(type) {
			case int:
				gi = int64(t)
			case string:
				v, err := strconv.ParseInt(strings.TrimSpace(t), 10, 64)
				if err != nil {
					c.Violate("int-unparsable:"+api, fmt.Sprintf("record %d column %s: integer %d read back as %q", n, col.dbf, w, t), d())
					continue
				}
				gi = v
			}
			if gi != int64(w.(int)) {
				c.Violate("int:"+api, fmt.Sprintf("record %d column %s: wrote %d, read %d", n, col.dbf, w, gi), d())
			}
		case "float":
			var gf float64
			switch t := got[k].(type) {
			case float64:
				gf = t
			case string:
				v, err := strconv.ParseFloat(strings.TrimSpace(t), 64)
				if err != nil {
					c.Violate("float-unparsable:"+api, fmt.Sprintf("record %d column %s: float %v read back as %q", n, col.dbf, w, t), d())
					continue
				}
				gf = v
			}
			wf := w.(float64)
			tol := 0.5e-10 + 2*math.Abs(math.Nextafter(wf, math.Inf(1))-wf)
			if math.Abs(gf-wf) > tol {
				c.Violate("float:"+api, fmt.Sprintf("record %d column %s: wrote %v, read %v", n, col.dbf, wf, gf), d())
			}
		default:
			gs, _ := got[k].(string)
			ws := w.(string)
			if gs == ws {
				continue
			}
			switch {
			case strings.Trim(gs, " ") == strings.Trim(ws, " ") && blanksOnlyRemoved(ws, gs):
				// go-shp's ReadAttribute trims the DBF padding character (U+0020) from the value
				c.Violate("string:edge-blanks-trimmed", fmt.Sprintf("record %d column %s: %q read back as %q (leading/trailing blanks removed)", n, col.dbf, ws, gs), d())
			case strings.Trim(gs, " ") == strings.Trim(ws, " "):
				c.Violate("string:stray-blank:"+api+":"+pos, fmt.Sprintf("record %d column %s (%s): %q read back as %q (blank added)", n, col.dbf, pos, ws, gs), d())
			default:
				c.Violate("string:"+api+":"+pos, fmt.Sprintf("record %d column %s: %q read back as %q", n, col.dbf, ws, gs), d())
			}
		}
	}
}

// blanksOnlyRemoved reports whether got is want with some leading and/or
// trailing U+0020 removed (and nothing added).
func blanksOnlyRemoved(want, got string) bool {
	lead := func(s string) int { return len(s) - len(strings.TrimLeft(s, " ")) }
	trail := func(s string) int { return len(s) - len(strings.TrimRight(s, " ")) }
	return lead(got) <= lead(want) && trail(got) <= trail(want) && got != want
}
