// Package c15 monitors property C15: Similar is a symmetric tolerance
// comparison ignoring only documented reorderings.
package c15

import (
	"fmt"
	"math"
	"reflect"

	"github.com/ctessum/geom"

	"verifharness/internal/core"
	"verifharness/internal/gen"
)

func init() {
	core.Register(&core.Prop{
		ID: "C15",
		Rule: "case = one base geometry of one of the eight types (5% of the multi-part bases have 60..140 members, 12% store one member two or three times as exact copies; members in distinct cells, distinct vertices >= 200 tol apart, every ring closed; in 30% of the cases rings have two vertices tied for the smallest X - an axis-parallel left edge) and ~40 derived partners with a truth value known by construction: positives = every coordinate perturbed by < 0.9 tol, combined with member/ring/item permutations and ring-start rotations; negatives = other type (all 56 ordered type pairs), member inserted/deleted (also empty members), a ring moved from one polygon of a multi-polygon to a sibling, vertex inserted/deleted, line string reversed, one vertex displaced by 1.5-100 tol; every pair is evaluated in both directions (symmetry), plus unrelated random pairs; " +
			"an evaluation is one ordered Similar call judged; non-trivial = derived pair (distinct by hash of both geometries)",
		Assumptions: []string{"distinct members separated by >> tol so that matching is unambiguous (as the property states)", "rotation of the start vertex is claimed for closed rings only (as the property says); unclosed rings are compared as spelled"},
		Phases: []core.Phase{{Name: "pairs", NumCases: func(t string) int {
			if t == "thorough" {
				return 300000
			}
			return 8000
		}}},
		Run: run,
		Floors: func(t string) map[string]int64 {
			m := map[string]int64{"neg.closing_vertices_either_side_of_the_start": 400, "pos.perturbed": 5000, "pos.empty_box_with_itself": 200, "base.two_different_members_with_one_bounding_box": 300, "pos.one_infinite_ordinate": 200, "pos.permuted": 2000, "pos.ring_rotated": 1000, "neg.type": 5000, "neg.member_inserted": 1000, "neg.member_deleted": 1000, "neg.vertex_inserted": 1000,
				"neg.vertex_deleted": 1000, "neg.reversed": 300, "neg.displaced": 2000, "unrelated": 1000, "base.many_members_60_to_140": 100, "base.with_duplicate_member": 300, "neg.ring_moved_to_sibling_polygon": 300, "base.coordinate_spacing_comparable_to_tol": 300, "base.ring_with_tied_leftmost_vertices": 500, "base.with_unclosed_ring": 500, "neg.closing_vertex_displaced": 500, "pos.perturbed_closing_vertex_on_its_own": 2000, "base.ring_through_one_vertex_twice": 300}
			for _, n := range typeNames {
				m["base."+n] = 100
			}
			return m
		},
	})
}

var typeNames = []string{"Point", "MultiPoint", "LineString", "MultiLineString", "Polygon", "MultiPolygon", "GeometryCollection", "*Bounds"}

type builder struct {
	r                     *gen.R
	tol                   float64
	cell                  int     // next free cell
	many                  bool    // top-level multi-geometries get 60..140 members (sizes on both sides of 64 and 128)
	unclosed, sawUnclosed bool    // half of the rings are spelled without the repeated first vertex
	tiedAnchor, sawTie    bool    // rings may have several vertices with the smallest X (axis-parallel left edges)
	revisit, sawRevisit   bool    // closed rings may visit one of their vertices twice
	freeClosing           bool    // perturb leaves the closing vertex of a ring on its own
	off                   float64 // added to every coordinate: 1e15 .. 9e15 tol puts the float64 spacing at 0.1 .. 1 tol
	sameBox, sawSameBox   bool    // multi-geometries get a pair of DIFFERENT members with the same vertex count and the same bounding box
}

// rect returns the corners a, b, c, d (counter-clockwise from the lower left) of a rectangle in a fresh cell.
func (b *builder) rect() (pa, pb, pc, pd geom.Point) {
	cx, cy := b.nextCell()
	w, h := float64(b.r.IntRange(2, 20))*200*b.tol, float64(b.r.IntRange(2, 20))*200*b.tol
	return geom.Point{X: cx - w, Y: cy - h}, geom.Point{X: cx + w, Y: cy - h}, geom.Point{X: cx + w, Y: cy + h}, geom.Point{X: cx - w, Y: cy + h}
}

// shift returns v+d as realised in float64 with the meaning of d kept: a perturbation
// (|d| < tol) stays strictly below tol, a displacement (|d| > tol) stays strictly above it.
// (Differences of nearby doubles are exact, so the realised shift is nv-v.)
func shift(v, d, tol float64) float64 {
	nv := v + d
	if math.Abs(d) < tol {
		for math.Abs(nv-v) >= tol {
			nv = math.Nextafter(nv, v)
		}
		return nv
	}
	dir := math.Inf(1)
	if d < 0 {
		dir = math.Inf(-1)
	}
	for math.Abs(nv-v) <= tol {
		nv = math.Nextafter(nv, dir)
	}
	return nv
}

// members returns the member count of a top-level multi-geometry.
func (b *builder) members(depth, lo, hi int) int {
	if b.many && depth == 0 {
		return b.r.IntRange(60, 140)
	}
	return b.r.IntRange(lo, hi)
}

// cellOrigin returns the centre of the next unused cell.
func (b *builder) nextCell() (float64, float64) {
	k := b.cell
	b.cell++
	s := 1e4 * b.tol
	return float64(k%8)*s*3 + b.off, float64(k/8)*s*3 + b.off
}

// pts returns n distinct lattice vertices (200 tol spacing) in a fresh cell.
func (b *builder) pts(n int) []geom.Point {
	cx, cy := b.nextCell()
	seen := map[[2]int]bool{}
	out := make([]geom.Point, 0, n)
	for len(out) < n {
		i, j := b.r.IntRange(-20, 20), b.r.IntRange(-20, 20)
		if seen[[2]int{i, j}] {
			continue
		}
		seen[[2]int{i, j}] = true
		out = append(out, geom.Point{X: cx + float64(i)*200*b.tol, Y: cy + float64(j)*200*b.tol})
	}
	return out
}

// ring returns a closed ring with a unique smallest-X vertex.
func (b *builder) ring() geom.Path {
	for {
		save := b.cell
		p := b.pts(b.r.IntRange(3, 7))
		minx, cnt := p[0].X, 0
		for _, q := range p {
			if q.X < minx {
				minx = q.X
			}
		}
		for _, q := range p {
			if q.X == minx {
				cnt++
			}
		}
		if cnt == 1 && b.tiedAnchor && b.r.Chance(0.7) {
			// give a second vertex the smallest X as well (an axis-parallel left edge), provided
			// it stays distinct from all the others
			j := b.r.Intn(len(p))
			q := geom.Point{X: minx, Y: p[j].Y}
			ok := p[j].X != minx
			for k, o := range p {
				if k != j && o == q {
					ok = false
				}
			}
			if ok {
				p[j] = q
				cnt = 2
			}
		}
		if cnt == 1 || b.tiedAnchor {
			if cnt > 1 {
				b.sawTie = true
			}
			if b.unclosed && b.r.Chance(0.5) {
				b.sawUnclosed = true
				return geom.Path(p) // the spelling without the repeated first vertex
			}
			if b.revisit && b.r.Chance(0.6) {
				// the ring passes through one of its vertices twice: a consecutive duplicate or a
				// pinch; half of the time it is the lowest of the leftmost vertices
				j := b.r.Intn(len(p))
				if b.r.Bool() {
					for k, q := range p {
						if q.X < p[j].X || q.X == p[j].X && q.Y < p[j].Y {
							j = k
						}
					}
				}
				at := j + 1
				if b.r.Bool() {
					at = (j + 2 + b.r.Intn(len(p)-2)) % (len(p) + 1)
				}
				q := append(append(append([]geom.Point{}, p[:at]...), p[j]), p[at:]...)
				p = q
				b.sawRevisit = true
			}
			return append(geom.Path(p), p[0])
		}
		b.cell = save
	}
}

func (b *builder) build(kind int, depth int) geom.Geom {
	r := b.r
	switch kind {
	case 0:
		return b.pts(1)[0]
	case 1:
		return geom.MultiPoint(b.pts(b.members(depth, 1, 5)))
	case 2:
		return geom.LineString(b.pts(r.IntRange(2, 6)))
	case 3:
		m := make(geom.MultiLineString, b.members(depth, 1, 4))
		for i := range m {
			m[i] = b.pts(r.IntRange(2, 5))
		}
		if b.sameBox && !b.many {
			// two different members with the same vertex count and the same bounding box: a line and
			// its reverse (the two carriageways of a street), the two diagonals of a rectangle, or
			// the two ways round it
			pa, pb, pc, pd := b.rect()
			switch r.Intn(3) {
			case 0:
				m = append(m, geom.LineString{pa, pb, pc}, geom.LineString{pc, pb, pa})
			case 1:
				m = append(m, geom.LineString{pa, pc}, geom.LineString{pb, pd})
			default:
				m = append(m, geom.LineString{pa, pb, pc}, geom.LineString{pa, pd, pc})
			}
			b.sawSameBox = true
		}
		return m
	case 4:
		m := make(geom.Polygon, r.IntRange(1, 3))
		for i := range m {
			m[i] = b.ring()
		}
		if b.sameBox {
			// a rectangular shell and the diamond inscribed in it: two rings of five vertices with
			// the same bounding box
			pa, pb, pc, pd := b.rect()
			mid := func(p, q geom.Point) geom.Point { return geom.Point{X: p.X/2 + q.X/2, Y: p.Y/2 + q.Y/2} }
			m = append(m, geom.Path{pa, pb, pc, pd, pa}, geom.Path{mid(pa, pb), mid(pb, pc), mid(pc, pd), mid(pd, pa), mid(pa, pb)})
			b.sawSameBox = true
		}
		return m
	case 5:
		m := make(geom.MultiPolygon, b.members(depth, 1, 3))
		for i := range m {
			pg := make(geom.Polygon, r.IntRange(1, 2))
			for j := range pg {
				pg[j] = b.ring()
			}
			m[i] = pg
		}
		if b.sameBox && !b.many {
			// a rectangle split along a diagonal into two triangles (same bounding box, same counts)
			pa, pb, pc, pd := b.rect()
			m = append(m, geom.Polygon{{pa, pb, pc, pa}}, geom.Polygon{{pa, pc, pd, pa}})
			b.sawSameBox = true
		}
		return m
	case 6:
		m := make(geom.GeometryCollection, b.members(depth, 1, 4))
		for i := range m {
			k := r.Intn(8)
			if k == 6 && depth >= 1 {
				k = r.Intn(6)
			}
			m[i] = b.build(k, depth+1)
		}
		return m
	default:
		p := b.pts(2)
		return &geom.Bounds{Min: p[0], Max: p[1]}
	}
}

// mapPts returns a deep copy of g with f applied to every stored path;
// closed marks ring paths (first vertex repeated last).
func mapPts(g geom.Geom, f func(p []geom.Point, ring bool) []geom.Point) geom.Geom {
	switch t := g.(type) {
	case geom.Point:
		fixedSize = true
		o := f([]geom.Point{t}, false)
		fixedSize = false
		return o[0]
	case geom.MultiPoint:
		return geom.MultiPoint(f(append([]geom.Point{}, t...), false))
	case geom.LineString:
		return geom.LineString(f(append([]geom.Point{}, t...), false))
	case geom.MultiLineString:
		o := make(geom.MultiLineString, len(t))
		for i := range t {
			o[i] = f(append([]geom.Point{}, t[i]...), false)
		}
		return o
	case geom.Polygon:
		o := make(geom.Polygon, len(t))
		for i := range t {
			// "ring" tells the editing functions that the last vertex repeats the first and has
			// to follow it; an unclosed ring is edited like any other path
			closed := len(t[i]) > 1 && t[i][0] == t[i][len(t[i])-1]
			o[i] = f(append([]geom.Point{}, t[i]...), closed)
		}
		return o
	case geom.MultiPolygon:
		o := make(geom.MultiPolygon, len(t))
		for i := range t {
			o[i] = mapPts(t[i], f).(geom.Polygon)
		}
		return o
	case geom.GeometryCollection:
		o := make(geom.GeometryCollection, len(t))
		for i := range t {
			o[i] = mapPts(t[i], f)
		}
		return o
	case *geom.Bounds:
		fixedSize = true
		p := f([]geom.Point{t.Min, t.Max}, false)
		fixedSize = false
		return &geom.Bounds{Min: p[0], Max: p[1]}
	}
	return g
}

// fixedSize is set while mapPts visits the vertices of a Point or *Bounds,
// whose number cannot change.
var fixedSize bool

// editablePaths lists the indices of stored paths whose length may change.
func editablePaths(g geom.Geom) []int {
	var idx []int
	n := 0
	mapPts(g, func(p []geom.Point, ring bool) []geom.Point {
		if !fixedSize {
			idx = append(idx, n)
		}
		n++
		return p
	})
	return idx
}

func (b *builder) perturb(g geom.Geom) geom.Geom {
	return mapPts(g, func(p []geom.Point, ring bool) []geom.Point {
		for i := range p {
			p[i].X = shift(p[i].X, b.r.Range(-0.9, 0.9)*b.tol, b.tol)
			p[i].Y = shift(p[i].Y, b.r.Range(-0.9, 0.9)*b.tol, b.tol)
		}
		if ring && len(p) > 1 && !b.freeClosing {
			p[len(p)-1] = p[0]
		}
		return p
	})
}

// reorder permutes members / rings / items and rotates ring starts.
func (b *builder) reorder(g geom.Geom, c *core.Ctx) geom.Geom {
	r := b.r
	switch t := g.(type) {
	case geom.MultiLineString:
		o := make(geom.MultiLineString, len(t))
		for i, j := range r.Perm(len(t)) {
			o[i] = append(geom.LineString{}, t[j]...)
		}
		return o
	case geom.Polygon:
		o := make(geom.Polygon, len(t))
		for i, j := range r.Perm(len(t)) {
			ring := t[j]
			n := len(ring) - 1
			if n < 2 || ring[0] != ring[n] {
				o[i] = append(geom.Path{}, ring...) // not a closed ring any more (edited negative): keep as is
				continue
			}
			k := r.Intn(n)
			if k > 0 {
				c.Count("pos.ring_rotated")
			}
			nr := make(geom.Path, 0, n+1)
			for q := 0; q < n; q++ {
				nr = append(nr, ring[(q+k)%n])
			}
			o[i] = append(nr, nr[0])
		}
		return o
	case geom.MultiPolygon:
		o := make(geom.MultiPolygon, len(t))
		for i, j := range r.Perm(len(t)) {
			o[i] = b.reorder(t[j], c).(geom.Polygon)
		}
		return o
	case geom.GeometryCollection:
		o := make(geom.GeometryCollection, len(t))
		for i, j := range r.Perm(len(t)) {
			o[i] = b.reorder(t[j], c)
		}
		return o
	}
	return gen.DeepCopy(g)
}

// countPaths returns the number of stored paths (for choosing one to edit).
func countPaths(g geom.Geom) int {
	n := 0
	mapPts(g, func(p []geom.Point, ring bool) []geom.Point { n++; return p })
	return n
}

// editPath applies f to the k-th stored path.
func editPath(g geom.Geom, k int, f func(p []geom.Point, ring bool) []geom.Point) geom.Geom {
	i := 0
	return mapPts(g, func(p []geom.Point, ring bool) []geom.Point {
		i++
		if i-1 == k {
			return f(p, ring)
		}
		return p
	})
}

type neg struct {
	h         geom.Geom
	label     string
	noPerturb bool // the partner must not be perturbed further (its margin over tol is small)
}

func (b *builder) negatives(g geom.Geom) []neg {
	r := b.r
	var out []neg
	np := countPaths(g)
	// one vertex displaced by 1.5-100 tol
	for rep := 0; rep < 4; rep++ {
		lo, hi := 2.0, 100.0 // a later perturbation of < 0.9 tol leaves > 1.1 tol
		if b.off != 0 {
			// coordinate spacing up to 2 tol: the realised displacement is >= 3 tol - spacing/2,
			// the realised perturbation < tol, so more than tol remains
			lo = 3.0
		}
		if rep == 3 {
			lo, hi = 1.05, 2.0 // judged without further perturbation
		}
		out = append(out, neg{noPerturb: rep == 3, label: "displaced", h: editPath(g, r.Intn(np), func(p []geom.Point, ring bool) []geom.Point {
			n := len(p)
			if ring {
				n--
			}
			i := r.Intn(n)
			d := r.Range(lo, hi) * b.tol * float64(1-2*r.Intn(2))
			if r.Bool() {
				p[i].X = shift(p[i].X, d, b.tol)
			} else {
				p[i].Y = shift(p[i].Y, d, b.tol)
			}
			if ring {
				p[len(p)-1] = p[0]
			}
			return p
		})})
	}
	// the closing vertex of a closed ring displaced on its own (the ring is then no longer closed;
	// a comparison that skips "the last point, which repeats the first" does not see it)
	{
		var closedPaths []int
		k := 0
		mapPts(g, func(p []geom.Point, ring bool) []geom.Point {
			if ring && len(p) > 3 {
				closedPaths = append(closedPaths, k)
			}
			k++
			return p
		})
		if len(closedPaths) > 0 {
			out = append(out, neg{noPerturb: true, label: "closing_vertex_displaced", h: editPath(g, closedPaths[r.Intn(len(closedPaths))], func(p []geom.Point, ring bool) []geom.Point {
				d := r.Range(3, 50) * b.tol * float64(1-2*r.Intn(2))
				if r.Bool() {
					p[len(p)-1].X = shift(p[len(p)-1].X, d, b.tol)
				} else {
					p[len(p)-1].Y = shift(p[len(p)-1].Y, d, b.tol)
				}
				return p
			})})
		}
	}
	// a ring moved from one member polygon to a sibling (same number of polygons, same rings
	// overall, but the members' ring counts differ)
	moveRing := func(mp geom.MultiPolygon) (geom.MultiPolygon, bool) {
		if len(mp) < 2 {
			return nil, false
		}
		o := gen.DeepCopy(mp).(geom.MultiPolygon)
		from := r.Intn(len(o))
		if len(o[from]) == 0 {
			return nil, false
		}
		to := (from + 1 + r.Intn(len(o)-1)) % len(o)
		k := r.Intn(len(o[from]))
		ring := o[from][k]
		o[from] = append(o[from][:k:k], o[from][k+1:]...)
		o[to] = append(o[to], ring)
		return o, true
	}
	switch t := g.(type) {
	case geom.MultiPolygon:
		if h, ok := moveRing(t); ok {
			out = append(out, neg{label: "ring_moved_to_sibling_polygon", h: h})
		}
	case geom.GeometryCollection:
		for i, m := range t {
			if mp, ok := m.(geom.MultiPolygon); ok {
				if h, ok := moveRing(mp); ok {
					o := gen.DeepCopy(t).(geom.GeometryCollection)
					o[i] = h
					out = append(out, neg{label: "ring_moved_to_sibling_polygon", h: o})
					break
				}
			}
		}
	}
	if ed := editablePaths(g); len(ed) > 0 {
		// vertex inserted / deleted
		out = append(out, neg{label: "vertex_inserted", h: editPath(g, ed[r.Intn(len(ed))], func(p []geom.Point, ring bool) []geom.Point {
			extra := b.pts(1)[0]
			i := r.Intn(len(p))
			if ring {
				i = 1 + r.Intn(len(p)-1)
			}
			p = append(p[:i], append([]geom.Point{extra}, p[i:]...)...)
			return p
		})})
		out = append(out, neg{label: "vertex_deleted", h: editPath(g, ed[r.Intn(len(ed))], func(p []geom.Point, ring bool) []geom.Point {
			if len(p) == 0 {
				return append(p, b.pts(1)[0])
			}
			i := r.Intn(len(p))
			if ring {
				i = 1 + r.Intn(len(p)-2)
			}
			return append(p[:i], p[i+1:]...)
		})})
	}
	// reversed line strings
	switch t := g.(type) {
	case geom.LineString:
		o := append(geom.LineString{}, t...)
		for i, j := 0, len(o)-1; i < j; i, j = i+1, j-1 {
			o[i], o[j] = o[j], o[i]
		}
		out = append(out, neg{h: o, label: "reversed"})
	case geom.MultiLineString:
		o := gen.DeepCopy(t).(geom.MultiLineString)
		k := r.Intn(len(o))
		for i, j := 0, len(o[k])-1; i < j; i, j = i+1, j-1 {
			o[k][i], o[k][j] = o[k][j], o[k][i]
		}
		out = append(out, neg{h: o, label: "reversed"})
	}
	// member inserted / deleted
	ins := func(empty bool) geom.Geom {
		switch t := g.(type) {
		case geom.MultiLineString:
			o := gen.DeepCopy(t).(geom.MultiLineString)
			var m geom.LineString
			if !empty {
				m = b.pts(r.IntRange(2, 4))
			}
			i := r.Intn(len(o) + 1)
			return append(o[:i], append(geom.MultiLineString{m}, o[i:]...)...)
		case geom.Polygon:
			o := gen.DeepCopy(t).(geom.Polygon)
			var m geom.Path
			if !empty {
				m = b.ring()
			}
			i := r.Intn(len(o) + 1)
			return append(o[:i], append(geom.Polygon{m}, o[i:]...)...)
		case geom.MultiPolygon:
			o := gen.DeepCopy(t).(geom.MultiPolygon)
			m := geom.Polygon{}
			if !empty {
				m = geom.Polygon{b.ring()}
			}
			i := r.Intn(len(o) + 1)
			return append(o[:i], append(geom.MultiPolygon{m}, o[i:]...)...)
		case geom.GeometryCollection:
			o := gen.DeepCopy(t).(geom.GeometryCollection)
			var m geom.Geom = geom.MultiPoint{}
			if !empty {
				m = b.build(r.Intn(6), 1)
			}
			i := r.Intn(len(o) + 1)
			return append(o[:i], append(geom.GeometryCollection{m}, o[i:]...)...)
		}
		return nil
	}
	if h := ins(false); h != nil {
		out = append(out, neg{h: h, label: "member_inserted"})
	}
	if h := ins(true); h != nil {
		out = append(out, neg{h: h, label: "member_inserted"})
	}
	switch t := g.(type) {
	case geom.MultiLineString:
		o := gen.DeepCopy(t).(geom.MultiLineString)
		i := r.Intn(len(o))
		out = append(out, neg{h: append(o[:i], o[i+1:]...), label: "member_deleted"})
	case geom.Polygon:
		o := gen.DeepCopy(t).(geom.Polygon)
		i := r.Intn(len(o))
		out = append(out, neg{h: append(o[:i], o[i+1:]...), label: "member_deleted"})
	case geom.MultiPolygon:
		o := gen.DeepCopy(t).(geom.MultiPolygon)
		i := r.Intn(len(o))
		out = append(out, neg{h: append(o[:i], o[i+1:]...), label: "member_deleted"})
	case geom.GeometryCollection:
		o := gen.DeepCopy(t).(geom.GeometryCollection)
		i := r.Intn(len(o))
		out = append(out, neg{h: append(o[:i], o[i+1:]...), label: "member_deleted"})
	}
	return out
}

func tname(g geom.Geom) string {
	s := reflect.TypeOf(g).String()
	if s == "*geom.Bounds" {
		return "*Bounds"
	}
	return s[5:]
}

func run(c *core.Ctx, idx int) {
	r := c.R
	tol := []float64{1e-9, 1e-6, 1e-3, 1, 7.5, 1e3}[r.Intn(6)] * r.Range(0.5, 2)
	b := &builder{r: r, tol: tol}
	kind := r.Intn(8)
	b.tiedAnchor = r.Chance(0.3)
	b.revisit = r.Chance(0.25)
	b.unclosed = r.Chance(0.3)
	b.sameBox = r.Chance(0.2)
	if r.Chance(0.1) {
		// far from the origin relative to the tolerance: the float64 spacing of the coordinates is
		// 0.1 .. 1 tol (a tolerance of a nanometre at UTM coordinates); perturbations and
		// displacements are realised exactly (see shift)
		b.off = tol * math.Pow(10, r.Range(15, 15.95)) * float64(1-2*r.Intn(2))
		c.Count("base.coordinate_spacing_comparable_to_tol")
	}
	if r.Chance(0.05) {
		b.many = true
		kind = []int{1, 3, 5, 6}[r.Intn(4)]
		c.Count("base.many_members_60_to_140")
	}
	g := b.build(kind, 0)
	if r.Chance(0.12) {
		// the same member stored twice (exact copies are not "distinct members": matching stays
		// unambiguous, but a matcher must still use every partner only once)
		if d, ok := dupMember(r, g); ok {
			g = d
			c.Count("base.with_duplicate_member")
		}
	}
	if b.sawRevisit {
		c.Count("base.ring_through_one_vertex_twice")
	}
	if b.sawTie {
		c.Count("base.ring_with_tied_leftmost_vertices")
	}
	if b.sawUnclosed {
		c.Count("base.with_unclosed_ring")
	}
	if b.sawSameBox {
		c.Count("base.two_different_members_with_one_bounding_box")
	}
	c.Count("base." + tname(g))
	if c.WantSample() && kind >= 3 {
		c.Sample(map[string]interface{}{"base": gen.Dump(g), "tolerance": tol})
	}
	judge := func(h geom.Geom, want bool, label string) {
		hh := core.NewHasher()
		gen.HashGeom(hh, g)
		gen.HashGeom(hh, h)
		c.Nontrivial(hh.Sum())
		detail := map[string]interface{}{"g": gen.Dump(g), "h": gen.Dump(h), "tolerance": tol, "derivation": label, "expected": want}
		var gh, hg bool
		c.EvalN(2)
		if c.Guard("Similar:"+tname(g), detail, func() { gh = g.Similar(h, tol) }) {
			return
		}
		if c.Guard("Similar:"+tname(h), detail, func() { hg = h.Similar(g, tol) }) {
			return
		}
		if gh != hg {
			c.Violate("asymmetric:"+label+":"+tname(g), fmt.Sprintf("g.Similar(h)=%v but h.Similar(g)=%v (%s, derivation %s)", gh, hg, tname(g), label), detail)
			return
		}
		if gh != want {
			c.Violate(fmt.Sprintf("value:%s:want-%v:%s", label, want, tname(g)), fmt.Sprintf("Similar = %v for a partner derived by '%s' (%s); expected %v", gh, label, tname(g), want), detail)
		}
	}
	// positives
	for k := 0; k < 4; k++ {
		c.Count("pos.perturbed")
		judge(b.perturb(g), true, "perturbed")
	}
	// every coordinate perturbed on its own - the closing vertex of a ring too, which then no
	// longer repeats the first vertex bit for bit (and may become the ring's leftmost-lowest one)
	for k := 0; k < 2; k++ {
		c.Count("pos.perturbed_closing_vertex_on_its_own")
		b.freeClosing = true
		h := b.perturb(g)
		b.freeClosing = false
		judge(h, true, "perturbed, closing vertices on their own")
	}
	for k := 0; k < 3; k++ {
		c.Count("pos.permuted")
		judge(b.perturb(b.reorder(g, c)), true, "permuted+perturbed")
	}
	judge(gen.DeepCopy(g), true, "identical")
	// negatives by construction
	for _, n := range b.negatives(g) {
		c.Count("neg." + n.label)
		judge(n.h, false, n.label)
		// also after a legal perturbation/reordering of the negative partner
		if !n.noPerturb {
			judge(b.perturb(b.reorder(n.h, c)), false, n.label+"+permuted")
		}
	}
	// two spellings of one closed ring whose closing vertices lie 0.55-0.95 tol on either side of
	// the start vertex: both rings are closed to within the tolerance, every other vertex is the
	// same, and the closing vertices are 1.1-1.9 tol apart - one vertex displaced by more than tol
	if b.off == 0 {
		var closedPaths []int
		k := 0
		mapPts(g, func(p []geom.Point, ring bool) []geom.Point {
			if ring && len(p) > 3 {
				closedPaths = append(closedPaths, k)
			}
			k++
			return p
		})
		// (not where the chosen ring has a twin among the other members: with duplicated members the
		// two spellings can be matched crosswise with the exact copies, and Similar is rightly true)
		kp := -1
		if len(closedPaths) > 0 {
			kp = closedPaths[r.Intn(len(closedPaths))]
			var all [][]geom.Point
			mapPts(g, func(p []geom.Point, ring bool) []geom.Point {
				all = append(all, p)
				return p
			})
			for j, p := range all {
				if j != kp && len(p) == len(all[kp]) && len(p) > 0 && p[0] == all[kp][0] {
					kp = -1
					break
				}
			}
		}
		if kp >= 0 {
			onX, f := r.Bool(), r.Range(0.55, 0.95)
			mk := func(sign float64) geom.Geom {
				return editPath(gen.DeepCopy(g), kp, func(p []geom.Point, ring bool) []geom.Point {
					if onX {
						p[len(p)-1].X = shift(p[len(p)-1].X, sign*f*tol, tol)
					} else {
						p[len(p)-1].Y = shift(p[len(p)-1].Y, sign*f*tol, tol)
					}
					return p
				})
			}
			base, plus, minus := g, mk(1), mk(-1)
			g = plus
			c.Count("neg.closing_vertices_either_side_of_the_start")
			judge(minus, false, "closing_vertices_either_side_of_the_start")
			g = base
		}
	}
	// other types (all ordered type pairs over the run)
	for k := 0; k < 8; k++ {
		if k == kind {
			continue
		}
		bb := &builder{r: r, tol: tol} // same cells: even coincident coordinates must not make different types similar
		c.Count("neg.type")
		c.Count("typepair." + tname(g) + "/" + typeNames[k])
		judge(bb.build(k, 0), false, "type")
	}
	// unrelated random pair of the same type: only symmetry is known... and they differ by construction (fresh cells)
	c.Count("unrelated")
	judge(b.build(kind, 0), false, "unrelated_same_type")
	// infinite ordinates: the empty box (corners at +Inf / -Inf) against another empty box, and g
	// with one ordinate of one vertex at an infinity against a perturbed copy (an infinite ordinate
	// perturbed by less than tol is the same infinity)
	if r.Chance(0.15) {
		base := g
		g = geom.NewBounds()
		c.Count("pos.empty_box_with_itself")
		judge(geom.NewBounds(), true, "empty box with another empty box")
		g = base
	}
	if paths := countPaths(g); paths > 0 && r.Chance(0.15) {
		inf := math.Inf(1 - 2*r.Intn(2))
		k, onX := r.Intn(paths), r.Bool()
		gi := editPath(gen.DeepCopy(g), k, func(p []geom.Point, ring bool) []geom.Point {
			if len(p) < 3 {
				return p
			}
			i := 1 + r.Intn(len(p)-2) // not the first or the closing vertex
			if onX {
				p[i].X = inf
			} else {
				p[i].Y = inf
			}
			return p
		})
		base := g
		g = gi
		c.Count("pos.one_infinite_ordinate")
		judge(b.perturb(gi), true, "perturbed, one ordinate infinite in both")
		judge(gen.DeepCopy(gi), true, "identical, one ordinate infinite")
		g = base
	}
}

// dupMember returns g with one of its members (line strings, polygons, rings,
// collection items) stored once or twice more at random positions.
func dupMember(r *gen.R, g geom.Geom) (geom.Geom, bool) {
	times := r.IntRange(1, 2)
	switch t := g.(type) {
	case geom.MultiLineString:
		if len(t) == 0 {
			return g, false
		}
		o := gen.DeepCopy(t).(geom.MultiLineString)
		for k := 0; k < times; k++ {
			m := gen.DeepCopy(o[r.Intn(len(o))]).(geom.LineString)
			i := r.Intn(len(o) + 1)
			o = append(o[:i], append(geom.MultiLineString{m}, o[i:]...)...)
		}
		return o, true
	case geom.Polygon:
		if len(t) == 0 {
			return g, false
		}
		o := gen.DeepCopy(t).(geom.Polygon)
		for k := 0; k < times; k++ {
			m := append(geom.Path{}, o[r.Intn(len(o))]...)
			i := r.Intn(len(o) + 1)
			o = append(o[:i], append(geom.Polygon{m}, o[i:]...)...)
		}
		return o, true
	case geom.MultiPolygon:
		if len(t) == 0 {
			return g, false
		}
		o := gen.DeepCopy(t).(geom.MultiPolygon)
		for k := 0; k < times; k++ {
			m := gen.DeepCopy(o[r.Intn(len(o))]).(geom.Polygon)
			i := r.Intn(len(o) + 1)
			o = append(o[:i], append(geom.MultiPolygon{m}, o[i:]...)...)
		}
		return o, true
	case geom.GeometryCollection:
		if len(t) == 0 {
			return g, false
		}
		o := gen.DeepCopy(t).(geom.GeometryCollection)
		for k := 0; k < times; k++ {
			m := gen.DeepCopy(o[r.Intn(len(o))])
			i := r.Intn(len(o) + 1)
			o = append(o[:i], append(geom.GeometryCollection{m}, o[i:]...)...)
		}
		return o, true
	}
	return g, false
}
