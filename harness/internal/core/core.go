// Package core is the property-independent part of the monitor harness:
// deterministic case lists, sharding over child processes, journals, verdicts,
// evidence, replay files and the known-findings matcher.
package core

import (
	"encoding/json"
	"fmt"
	"os"
	"sort"
	"sync"
)

// Phase is one pass of a property's workload.
type Phase struct {
	Name     string
	Race     bool                  // run with the race-instrumented binary
	NumCases func(tier string) int // size of the case list
	Workers  int                   // 0 = default
	Env      []string              // extra environment for the workers
}

// Prop describes one monitored property.
type Prop struct {
	ID          string
	Rule        string
	Assumptions []string
	Phases      []Phase
	// Run executes case idx of c.Phase. All randomness must come from c.R.
	Run func(c *Ctx, idx int)
	// Setup is called once per worker before the first case.
	Setup func(c *Ctx)
	// Teardown is called once per worker after the last case.
	Teardown func(c *Ctx)
	// Floors lists counters that must reach a minimum for the run to be
	// conclusive.
	Floors func(tier string) map[string]int64
	// RlimitAS, when non-zero, is the address-space limit of each worker.
	RlimitAS uint64
	// Exhaustive reports whether the tier enumerated a finite space completely.
	Exhaustive func(tier string) bool
}

var (
	regMu sync.Mutex
	reg   = map[string]*Prop{}
)

// Register adds a property.
func Register(p *Prop) {
	regMu.Lock()
	defer regMu.Unlock()
	reg[p.ID] = p
}

// Lookup returns a registered property.
func Lookup(id string) *Prop { return reg[id] }

// IDs lists registered property ids.
func IDs() []string {
	var out []string
	for k := range reg {
		out = append(out, k)
	}
	sort.Strings(out)
	return out
}

// Violation is one observed refutation.
type Violation struct {
	Key    string      `json:"key"`
	What   string      `json:"what"`
	Phase  string      `json:"phase"`
	Case   int         `json:"case"`
	Detail interface{} `json:"detail,omitempty"`
	Count  int64       `json:"count"`
}

// Ctx is handed to a property's Run.
type Ctx struct {
	PropID string
	Tier   string
	Seed   int64
	Phase  string
	Idx    int
	R      *Rand
	Replay bool
	// State is per-worker scratch owned by the property.
	State interface{}
	// ScratchDir is a per-worker directory removed afterwards.
	ScratchDir string

	mu         sync.Mutex
	counters   map[string]int64
	maxes      map[string]float64
	nontrivial map[uint64]struct{}
	samples    []json.RawMessage
	viol       map[string]*Violation
	violOrder  []string
	evals      int64
	maxSamples int
}

func newCtx(prop, tier string, seed int64) *Ctx {
	return &Ctx{PropID: prop, Tier: tier, Seed: seed,
		counters: map[string]int64{}, maxes: map[string]float64{},
		nontrivial: map[uint64]struct{}{}, viol: map[string]*Violation{}, maxSamples: 3}
}

// Thorough reports whether the tier is the thorough one.
func (c *Ctx) Thorough() bool { return c.Tier == "thorough" }

// Count increments a coverage counter.
func (c *Ctx) Count(cat string) { c.Add(cat, 1) }

// Add adds n to a coverage counter.
func (c *Ctx) Add(cat string, n int64) {
	c.mu.Lock()
	c.counters[cat] += n
	c.mu.Unlock()
}

// Max records the maximum of a metric.
func (c *Ctx) Max(name string, v float64) {
	c.mu.Lock()
	if old, ok := c.maxes[name]; !ok || v > old {
		c.maxes[name] = v
	}
	c.mu.Unlock()
}

// Eval counts one evaluation (one oracle-judged execution).
func (c *Ctx) Eval() { c.EvalN(1) }

// EvalN counts n evaluations.
func (c *Ctx) EvalN(n int) {
	c.mu.Lock()
	c.evals += int64(n)
	c.mu.Unlock()
}

// Nontrivial records the hash of a case that is non-trivial by the property's rule.
func (c *Ctx) Nontrivial(h uint64) {
	c.mu.Lock()
	// The set is kept exactly up to a cap per worker; beyond it new hashes are
	// dropped, so the reported number is a lower bound (never an overcount).
	if len(c.nontrivial) < maxNontrivialPerWorker {
		c.nontrivial[h] = struct{}{}
	} else if _, ok := c.nontrivial[h]; !ok {
		c.counters["nontrivial.dropped_beyond_cap"]++
	}
	c.mu.Unlock()
}

const maxNontrivialPerWorker = 250000

// Sample keeps up to three literal cases per worker for the evidence file.
func (c *Ctx) Sample(v interface{}) {
	c.mu.Lock()
	defer c.mu.Unlock()
	if len(c.samples) >= c.maxSamples {
		return
	}
	b, err := json.Marshal(v)
	if err != nil {
		b, _ = json.Marshal(fmt.Sprintf("%+v", v))
	}
	c.samples = append(c.samples, b)
}

// WantSample reports whether another sample would be kept.
func (c *Ctx) WantSample() bool {
	c.mu.Lock()
	defer c.mu.Unlock()
	return len(c.samples) < c.maxSamples
}

// Violate records a violation. key identifies the failing call site /
// signature (used for de-duplication and for matching known findings); what
// is a one-line human description; detail is the serialized witness.
func (c *Ctx) Violate(key, what string, detail interface{}) {
	c.mu.Lock()
	defer c.mu.Unlock()
	if v, ok := c.viol[key]; ok {
		v.Count++
		return
	}
	// make sure detail is serializable
	if detail != nil {
		if _, err := json.Marshal(detail); err != nil {
			detail = fmt.Sprintf("%+v", detail)
		}
	}
	c.viol[key] = &Violation{Key: key, What: what, Phase: c.Phase, Case: c.Idx, Detail: detail, Count: 1}
	c.violOrder = append(c.violOrder, key)
	if c.Replay {
		fmt.Printf("  violation key=%s what=%s\n", key, what)
	}
}

// Violations returns the number of distinct violation keys so far.
func (c *Ctx) Violations() int {
	c.mu.Lock()
	defer c.mu.Unlock()
	return len(c.viol)
}

// Guard runs f and converts a panic into a violation (most properties say
// "never panics"). It returns true if f panicked.
func (c *Ctx) Guard(site string, detail interface{}, f func()) (panicked bool) {
	defer func() {
		if r := recover(); r != nil {
			panicked = true
			c.Violate("panic:"+site, fmt.Sprintf("panic at %s: %v", site, trunc(fmt.Sprint(r), 200)), detail)
		}
	}()
	f()
	return false
}

// Try runs f and returns the recovered panic value, if any, without judging it.
func Try(f func()) (rec interface{}) {
	defer func() {
		if r := recover(); r != nil {
			rec = r
		}
	}()
	f()
	return nil
}

func trunc(s string, n int) string {
	if len(s) > n {
		return s[:n] + "…"
	}
	return s
}

// Trunc shortens a string for messages.
func Trunc(s string, n int) string { return trunc(s, n) }

// workerResult is what a worker writes when it finishes.
type workerResult struct {
	Done       bool               `json:"done"`
	Evals      int64              `json:"evals"`
	Counters   map[string]int64   `json:"counters"`
	Maxes      map[string]float64 `json:"maxes"`
	Nontrivial []uint64           `json:"nontrivial"`
	Samples    []json.RawMessage  `json:"samples"`
	Violations []*Violation       `json:"violations"`
}

func (c *Ctx) result() *workerResult {
	r := &workerResult{Done: true, Evals: c.evals, Counters: c.counters, Maxes: c.maxes, Samples: c.samples}
	for h := range c.nontrivial {
		r.Nontrivial = append(r.Nontrivial, h)
	}
	for _, k := range c.violOrder {
		r.Violations = append(r.Violations, c.viol[k])
	}
	return r
}

// VerifDir returns the root of the verification tree.
func VerifDir() string {
	if d := os.Getenv("VERIF_DIR"); d != "" {
		return d
	}
	return "/verif"
}

// OutDir is where evidence and replay files are written (VERIF_OUT overrides
// it for self-validation runs against scratch copies, so that the committed
// evidence is only ever written by runs against the real tree).
func OutDir() string {
	if d := os.Getenv("VERIF_OUT"); d != "" {
		return d
	}
	return VerifDir()
}
