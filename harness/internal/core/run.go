package core

import (
	"bytes"
	"encoding/json"
	"fmt"
	"os"
	"os/exec"
	"path/filepath"
	"regexp"
	"runtime"
	"sort"
	"strconv"
	"strings"
	"sync"
	"syscall"
	"time"
)

// Exit codes.
const (
	ExitHeld         = 0
	ExitViolation    = 1
	ExitInconclusive = 3
)

// WorkerMain runs one shard of one phase in this process.
func WorkerMain(propID, tier string, seed int64, phase string, shard, nshards int, out, journal string) int {
	p := Lookup(propID)
	if p == nil {
		fmt.Fprintf(os.Stderr, "unknown property %s\n", propID)
		return 2
	}
	var ph *Phase
	for i := range p.Phases {
		if p.Phases[i].Name == phase {
			ph = &p.Phases[i]
		}
	}
	if ph == nil {
		fmt.Fprintf(os.Stderr, "unknown phase %s\n", phase)
		return 2
	}
	if p.RlimitAS != 0 {
		lim := syscall.Rlimit{Cur: p.RlimitAS, Max: p.RlimitAS}
		if err := syscall.Setrlimit(syscall.RLIMIT_AS, &lim); err != nil {
			fmt.Fprintf(os.Stderr, "setrlimit: %v\n", err)
		}
	}
	c := newCtx(propID, tier, seed)
	c.Phase = phase
	c.ScratchDir = filepath.Join(filepath.Dir(out), fmt.Sprintf("scratch.%s.%d", phase, shard))
	os.MkdirAll(c.ScratchDir, 0o755)
	defer os.RemoveAll(c.ScratchDir)
	jf, _ := os.OpenFile(journal, os.O_CREATE|os.O_WRONLY|os.O_TRUNC, 0o644)
	if p.Setup != nil {
		p.Setup(c)
	}
	n := ph.NumCases(tier)
	for idx := shard; idx < n; idx += nshards {
		if jf != nil {
			jf.WriteAt([]byte(fmt.Sprintf("%-20d\n", idx)), 0)
		}
		c.Idx = idx
		c.R = NewRand(CaseSeed(propID, tier+"/"+phase, seed, idx))
		p.Run(c, idx)
	}
	if p.Teardown != nil {
		p.Teardown(c)
	}
	if jf != nil {
		jf.Close()
	}
	b, err := json.Marshal(c.result())
	if err != nil {
		fmt.Fprintf(os.Stderr, "marshal result: %v\n", err)
		return 2
	}
	if err := os.WriteFile(out, b, 0o644); err != nil {
		fmt.Fprintf(os.Stderr, "write result: %v\n", err)
		return 2
	}
	return 0
}

// knownFindings is the committed file of recorded (not repaired) defects.
type knownFindings struct {
	Findings []struct {
		Property string `json:"property"`
		Key      string `json:"key"`
		What     string `json:"what"`
	} `json:"findings"`
	Fixed []string `json:"fixed"`
}

func loadKnown() *knownFindings {
	k := &knownFindings{}
	b, err := os.ReadFile(filepath.Join(VerifDir(), "known_findings.json"))
	if err != nil {
		return k
	}
	if err := json.Unmarshal(b, k); err != nil {
		fmt.Fprintf(os.Stderr, "known_findings.json: %v\n", err)
	}
	return k
}

func (k *knownFindings) match(prop, key string) (string, bool) {
	for _, f := range k.Findings {
		if f.Property == prop && f.Key == key {
			return f.What, true
		}
	}
	return "", false
}

// RunOptions configures a parent run.
type RunOptions struct {
	PropID   string
	Tier     string
	Seed     int64
	Bin      string // plain worker binary (normally os.Args[0])
	RaceBin  string // race-instrumented worker binary
	WorkDir  string // scratch directory for this invocation (removed by the caller)
	Watchdog time.Duration
}

type agg struct {
	evals      int64
	counters   map[string]int64
	maxes      map[string]float64
	nontrivial map[uint64]struct{}
	samples    []json.RawMessage
	viol       map[string]*Violation
	order      []string
	inconcl    []string
	raceInfo   map[string]interface{}
}

var raceBlockRe = regexp.MustCompile(`(?s)WARNING: DATA RACE.*?==================`)

// ParentMain runs every phase of a property and writes evidence.
func ParentMain(o RunOptions) int {
	p := Lookup(o.PropID)
	if p == nil {
		fmt.Fprintf(os.Stderr, "unknown property %s (have %v)\n", o.PropID, IDs())
		return 2
	}
	start := time.Now()
	a := &agg{counters: map[string]int64{}, maxes: map[string]float64{}, nontrivial: map[uint64]struct{}{},
		viol: map[string]*Violation{}, raceInfo: map[string]interface{}{}}
	os.MkdirAll(o.WorkDir, 0o755)
	for pi := range p.Phases {
		ph := &p.Phases[pi]
		n := ph.NumCases(o.Tier)
		if n == 0 {
			continue
		}
		nw := ph.Workers
		if nw == 0 {
			nw = runtime.NumCPU()
			if nw > 16 {
				nw = 16
			}
		}
		if nw > n {
			nw = n
		}
		bin := o.Bin
		if ph.Race {
			bin = o.RaceBin
			if bin == "" {
				a.inconcl = append(a.inconcl, "race binary missing for phase "+ph.Name)
				continue
			}
		}
		var wg sync.WaitGroup
		type wres struct {
			res     *workerResult
			err     string
			journal string
			timeout bool
		}
		results := make([]wres, nw)
		for w := 0; w < nw; w++ {
			wg.Add(1)
			go func(w int) {
				defer wg.Done()
				base := filepath.Join(o.WorkDir, fmt.Sprintf("%s.%d", ph.Name, w))
				out, journal, stderrF := base+".result.json", base+".journal", base+".stderr"
				cmd := exec.Command(bin, "worker", "-prop", o.PropID, "-tier", o.Tier, "-seed", strconv.FormatInt(o.Seed, 10),
					"-phase", ph.Name, "-shard", strconv.Itoa(w), "-nshards", strconv.Itoa(nw), "-out", out, "-journal", journal)
				cmd.Env = append(os.Environ(), ph.Env...)
				if ph.Race {
					cmd.Env = append(cmd.Env, "GORACE=halt_on_error=0 log_path="+base+".race")
				}
				ef, _ := os.Create(stderrF)
				cmd.Stderr = ef
				cmd.Stdout = ef
				if err := cmd.Start(); err != nil {
					results[w].err = err.Error()
					return
				}
				done := make(chan error, 1)
				go func() { done <- cmd.Wait() }()
				var err error
				select {
				case err = <-done:
				case <-time.After(o.Watchdog):
					cmd.Process.Signal(syscall.SIGQUIT)
					select {
					case <-done:
					case <-time.After(10 * time.Second):
						cmd.Process.Kill()
						<-done
					}
					results[w].timeout = true
				}
				ef.Close()
				jb, _ := os.ReadFile(journal)
				results[w].journal = strings.TrimSpace(string(jb))
				rb, rerr := os.ReadFile(out)
				if rerr == nil {
					r := &workerResult{}
					if json.Unmarshal(rb, r) == nil && r.Done {
						results[w].res = r
						return
					}
				}
				eb, _ := os.ReadFile(stderrF)
				tail := string(eb)
				if len(tail) > 3000 {
					tail = tail[:1500] + "\n…\n" + tail[len(tail)-1500:]
				}
				results[w].err = fmt.Sprintf("worker exit: %v\n%s", err, tail)
			}(w)
		}
		wg.Wait()
		for w, r := range results {
			if r.res != nil {
				a.merge(r.res)
			} else if r.timeout {
				a.inconcl = append(a.inconcl, fmt.Sprintf("watchdog fired: phase %s worker %d at case %s", ph.Name, w, r.journal))
			} else {
				// process-fatal event attributed to the journalled case
				idx, _ := strconv.Atoi(r.journal)
				first := firstLine(r.err)
				key := "fatal:" + fatalSignature(r.err)
				if _, ok := a.viol[key]; !ok {
					a.viol[key] = &Violation{Key: key, What: "worker process died: " + first, Phase: ph.Name, Case: idx,
						Detail: map[string]interface{}{"stderr": r.err}, Count: 1}
					a.order = append(a.order, key)
				} else {
					a.viol[key].Count++
				}
			}
		}
		if ph.Race {
			a.collectRaces(o, ph)
		}
	}

	// floors
	if p.Floors != nil {
		fl := p.Floors(o.Tier)
		var names []string
		for k := range fl {
			names = append(names, k)
		}
		sort.Strings(names)
		for _, k := range names {
			if os.Getenv("VERIF_FLOOR_REPORT") != "" && fl[k] > 0 {
				fmt.Printf("FLOOR %s %s counter=%d floor=%d ratio=%.1f\n", o.PropID, k, a.counters[k], fl[k], float64(a.counters[k])/float64(fl[k]))
			}
			if a.counters[k] < fl[k] {
				a.inconcl = append(a.inconcl, fmt.Sprintf("coverage floor not reached: %s=%d < %d", k, a.counters[k], fl[k]))
			}
		}
	}
	if a.evals == 0 {
		a.inconcl = append(a.inconcl, "no evaluations")
	}
	if len(a.samples) == 0 {
		a.inconcl = append(a.inconcl, "no sample case recorded")
	}
	if len(a.nontrivial) < 2 {
		a.inconcl = append(a.inconcl, "fewer than two distinct non-trivial cases")
	}

	// verdicts
	known := loadKnown()
	exit := ExitHeld
	nviol := 0
	for _, k := range a.order {
		v := a.viol[k]
		if what, ok := known.match(o.PropID, v.Key); ok {
			fmt.Printf("KNOWN-FINDING: property=%s %s (key=%s, seen %d times)\n", o.PropID, what, v.Key, v.Count)
			continue
		}
		nviol++
		path := writeReplay(o, v)
		fmt.Printf("VIOLATION property=%s replay=%s\n", o.PropID, path)
		fmt.Printf("  key=%s count=%d what=%s\n", v.Key, v.Count, v.What)
		exit = ExitViolation
	}
	if exit == ExitHeld && len(a.inconcl) > 0 {
		exit = ExitInconclusive
	}
	for _, r := range a.inconcl {
		fmt.Printf("INCONCLUSIVE property=%s reason=%s\n", o.PropID, r)
	}
	wall := time.Since(start).Seconds()
	writeEvidence(o, p, a, nviol, wall)
	fmt.Printf("%s %s seed=%d: evaluations=%d distinct_nontrivial=%d violations=%d wall=%.1fs exit=%d\n",
		o.PropID, o.Tier, o.Seed, a.evals, len(a.nontrivial), nviol, wall, exit)
	return exit
}

func firstLine(s string) string {
	for _, l := range strings.Split(s, "\n") {
		if strings.HasPrefix(l, "fatal error:") || strings.HasPrefix(l, "panic:") || strings.HasPrefix(l, "runtime:") {
			return trunc(l, 200)
		}
	}
	if i := strings.IndexByte(s, '\n'); i >= 0 {
		return trunc(s[:i], 200)
	}
	return trunc(s, 200)
}

var geomFrameRe = regexp.MustCompile(`github\.com/ctessum/geom[^\s(]*`)

func fatalSignature(s string) string {
	fl := firstLine(s)
	if m := geomFrameRe.FindString(s); m != "" {
		return fl + "@" + m
	}
	return fl
}

func (a *agg) merge(r *workerResult) {
	a.evals += r.Evals
	for k, v := range r.Counters {
		a.counters[k] += v
	}
	for k, v := range r.Maxes {
		if old, ok := a.maxes[k]; !ok || v > old {
			a.maxes[k] = v
		}
	}
	for _, h := range r.Nontrivial {
		a.nontrivial[h] = struct{}{}
	}
	if len(a.samples) < 4 {
		for _, s := range r.Samples {
			if len(a.samples) < 4 {
				a.samples = append(a.samples, s)
			}
		}
	}
	for _, v := range r.Violations {
		if old, ok := a.viol[v.Key]; ok {
			old.Count += v.Count
			if v.Case < old.Case {
				cnt := old.Count
				*old = *v
				old.Count = cnt
			}
		} else {
			a.viol[v.Key] = v
			a.order = append(a.order, v.Key)
		}
	}
	sort.Strings(a.order)
}

// collectRaces counts race reports in the workers' race logs whose stacks
// include the package under test.
func (a *agg) collectRaces(o RunOptions, ph *Phase) {
	files, _ := filepath.Glob(filepath.Join(o.WorkDir, ph.Name+".*.race.*"))
	total, ours := 0, 0
	for _, f := range files {
		b, _ := os.ReadFile(f)
		for _, blk := range raceBlockRe.FindAll(b, -1) {
			total++
			if !bytes.Contains(blk, []byte("github.com/ctessum/geom/")) {
				continue
			}
			ours++
			key := "race:" + raceSignature(string(blk))
			if v, ok := a.viol[key]; ok {
				v.Count++
			} else {
				a.viol[key] = &Violation{Key: key, What: "data race reported by the Go race detector", Phase: ph.Name,
					Detail: map[string]interface{}{"report": trunc(string(blk), 6000)}, Count: 1}
				a.order = append(a.order, key)
			}
		}
	}
	a.raceInfo["race_reports_total"] = total
	a.raceInfo["race_reports_in_geom"] = ours
	a.raceInfo["race_logs"] = len(files)
}

var frameRe = regexp.MustCompile(`(?m)^\s+(github\.com/ctessum/geom/[^\s(]+)\(`)

// raceSignature de-duplicates by the first geom frame of each of the two stacks.
func raceSignature(blk string) string {
	parts := strings.Split(blk, "\n\n")
	var sig []string
	for _, part := range parts {
		if !(strings.Contains(part, "Write at") || strings.Contains(part, "Read at") || strings.Contains(part, "Previous")) {
			continue
		}
		if m := frameRe.FindStringSubmatch(part); m != nil {
			sig = append(sig, m[1])
		}
	}
	sort.Strings(sig)
	return strings.Join(sig, "|")
}

func writeReplay(o RunOptions, v *Violation) string {
	dir := filepath.Join(OutDir(), "replays")
	os.MkdirAll(dir, 0o755)
	h := Hash64([]byte(v.Key))
	path := filepath.Join(dir, fmt.Sprintf("%s-%016x.json", o.PropID, h))
	rec := map[string]interface{}{
		"property": o.PropID, "tier": o.Tier, "seed": o.Seed, "phase": v.Phase, "case": v.Case,
		"key": v.Key, "what": v.What, "count": v.Count, "detail": v.Detail,
		"replay_cmd": fmt.Sprintf("bin/check %s replay %s", o.PropID, path),
	}
	b, _ := json.MarshalIndent(rec, "", " ")
	os.WriteFile(path, b, 0o644)
	return path
}

func writeEvidence(o RunOptions, p *Prop, a *agg, nviol int, wall float64) {
	cov := map[string]interface{}{
		"evaluations":         a.evals,
		"distinct_nontrivial": len(a.nontrivial),
		"rule":                p.Rule,
		"counters":            a.counters,
		"max_observed":        a.maxes,
	}
	samples := make([]interface{}, 0, len(a.samples))
	for _, s := range a.samples {
		var v interface{}
		json.Unmarshal(s, &v)
		samples = append(samples, v)
	}
	cov["samples"] = samples
	if p.Exhaustive != nil && p.Exhaustive(o.Tier) {
		cov["exhaustive"] = true
	}
	for k, v := range a.raceInfo {
		cov[k] = v
	}
	if len(a.inconcl) > 0 {
		cov["inconclusive"] = a.inconcl
	}
	var kf []string
	known := loadKnown()
	for _, k := range a.order {
		if _, ok := known.match(o.PropID, k); ok {
			kf = append(kf, k)
		}
	}
	if len(kf) > 0 {
		cov["known_findings_seen"] = kf
	}
	ev := map[string]interface{}{
		"property_id": o.PropID, "tier": o.Tier, "seed": o.Seed, "level": "exploration",
		"coverage": cov, "assumptions": p.Assumptions, "wall_s": wall, "violations": nviol,
	}
	b, _ := json.MarshalIndent(ev, "", " ")
	dir := filepath.Join(OutDir(), "evidence")
	os.MkdirAll(dir, 0o755)
	os.WriteFile(filepath.Join(dir, o.PropID+".json"), append(b, '\n'), 0o644)
}

// ReplayMain re-executes the single case recorded in a replay file.
func ReplayMain(path string) int {
	b, err := os.ReadFile(path)
	if err != nil {
		fmt.Fprintln(os.Stderr, err)
		return 2
	}
	var rec struct {
		Property string `json:"property"`
		Tier     string `json:"tier"`
		Seed     int64  `json:"seed"`
		Phase    string `json:"phase"`
		Case     int    `json:"case"`
		Key      string `json:"key"`
	}
	if err := json.Unmarshal(b, &rec); err != nil {
		fmt.Fprintln(os.Stderr, err)
		return 2
	}
	p := Lookup(rec.Property)
	if p == nil {
		fmt.Fprintf(os.Stderr, "unknown property %s\n", rec.Property)
		return 2
	}
	c := newCtx(rec.Property, rec.Tier, rec.Seed)
	c.Phase = rec.Phase
	c.Replay = true
	c.ScratchDir, _ = os.MkdirTemp(filepath.Join(VerifDir(), ".scratch"), "replay")
	if c.ScratchDir == "" {
		os.MkdirAll(filepath.Join(VerifDir(), ".scratch"), 0o755)
		c.ScratchDir, _ = os.MkdirTemp(filepath.Join(VerifDir(), ".scratch"), "replay")
	}
	defer os.RemoveAll(c.ScratchDir)
	if p.Setup != nil {
		p.Setup(c)
	}
	c.Idx = rec.Case
	c.R = NewRand(CaseSeed(rec.Property, rec.Tier+"/"+rec.Phase, rec.Seed, rec.Case))
	fmt.Printf("replaying %s phase=%s case=%d (recorded key %s)\n", rec.Property, rec.Phase, rec.Case, rec.Key)
	p.Run(c, rec.Case)
	if p.Teardown != nil {
		p.Teardown(c)
	}
	if len(c.viol) > 0 {
		fmt.Printf("VIOLATION property=%s replay=%s\n", rec.Property, path)
		return 1
	}
	fmt.Println("no violation on this tree")
	return 0
}
