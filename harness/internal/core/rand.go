package core

import (
	"hash/fnv"
	"math"
)

// Rand is a small deterministic PRNG (xoshiro256** seeded through splitmix64).
// Every random choice of a case comes from one of these, seeded from
// (property, tier, VERIF_SEED, case index) only.
type Rand struct{ s [4]uint64 }

func splitmix(x *uint64) uint64 {
	*x += 0x9e3779b97f4a7c15
	z := *x
	z = (z ^ (z >> 30)) * 0xbf58476d1ce4e5b9
	z = (z ^ (z >> 27)) * 0x94d049bb133111eb
	return z ^ (z >> 31)
}

// NewRand returns a generator seeded from seed.
func NewRand(seed uint64) *Rand {
	r := &Rand{}
	for i := range r.s {
		r.s[i] = splitmix(&seed)
	}
	return r
}

// CaseSeed derives the seed of case idx.
func CaseSeed(prop, tier string, seed int64, idx int) uint64 {
	h := fnv.New64a()
	h.Write([]byte(prop))
	h.Write([]byte{0})
	h.Write([]byte(tier))
	h.Write([]byte{0})
	var b [16]byte
	for i := 0; i < 8; i++ {
		b[i] = byte(uint64(seed) >> (8 * i))
		b[8+i] = byte(uint64(idx) >> (8 * i))
	}
	h.Write(b[:])
	return h.Sum64()
}

func rotl(x uint64, k uint) uint64 { return (x << k) | (x >> (64 - k)) }

// Uint64 returns 64 random bits.
func (r *Rand) Uint64() uint64 {
	s := &r.s
	res := rotl(s[1]*5, 7) * 9
	t := s[1] << 17
	s[2] ^= s[0]
	s[3] ^= s[1]
	s[1] ^= s[2]
	s[0] ^= s[3]
	s[2] ^= t
	s[3] = rotl(s[3], 45)
	return res
}

// Intn returns an int in [0,n).
func (r *Rand) Intn(n int) int {
	if n <= 0 {
		return 0
	}
	return int(r.Uint64() % uint64(n))
}

// IntRange returns an int in [lo,hi].
func (r *Rand) IntRange(lo, hi int) int { return lo + r.Intn(hi-lo+1) }

// Float64 returns a float in [0,1).
func (r *Rand) Float64() float64 { return float64(r.Uint64()>>11) / (1 << 53) }

// Range returns a float in [lo,hi).
func (r *Rand) Range(lo, hi float64) float64 { return lo + (hi-lo)*r.Float64() }

// Bool returns a random bool.
func (r *Rand) Bool() bool { return r.Uint64()&1 == 1 }

// Chance returns true with probability p.
func (r *Rand) Chance(p float64) bool { return r.Float64() < p }

// Perm returns a random permutation of 0..n-1.
func (r *Rand) Perm(n int) []int {
	p := make([]int, n)
	for i := range p {
		p[i] = i
	}
	for i := n - 1; i > 0; i-- {
		j := r.Intn(i + 1)
		p[i], p[j] = p[j], p[i]
	}
	return p
}

// Norm returns a standard normal deviate.
func (r *Rand) Norm() float64 {
	u1 := r.Float64()
	for u1 == 0 {
		u1 = r.Float64()
	}
	return math.Sqrt(-2*math.Log(u1)) * math.Cos(2*math.Pi*r.Float64())
}

// Hash64 hashes bytes to 64 bits (FNV-1a).
func Hash64(b []byte) uint64 {
	h := fnv.New64a()
	h.Write(b)
	return h.Sum64()
}

// Hasher accumulates values into a 64-bit hash.
type Hasher struct{ h uint64 }

// NewHasher returns a fresh hasher.
func NewHasher() *Hasher { return &Hasher{h: 14695981039346656037} }

// U64 mixes in a uint64.
func (h *Hasher) U64(v uint64) *Hasher {
	for i := 0; i < 8; i++ {
		h.h ^= uint64(byte(v >> (8 * i)))
		h.h *= 1099511628211
	}
	return h
}

// F64 mixes in a float64 bit pattern.
func (h *Hasher) F64(v float64) *Hasher { return h.U64(math.Float64bits(v)) }

// Int mixes in an int.
func (h *Hasher) Int(v int) *Hasher { return h.U64(uint64(v)) }

// Str mixes in a string.
func (h *Hasher) Str(s string) *Hasher {
	for i := 0; i < len(s); i++ {
		h.h ^= uint64(s[i])
		h.h *= 1099511628211
	}
	return h.U64(uint64(len(s)))
}

// Sum returns the hash.
func (h *Hasher) Sum() uint64 { return h.h }
