// Package props links every property monitor into the driver.
package props

import (
	_ "verifharness/internal/c04"
)
