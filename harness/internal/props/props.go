// Package props links every property monitor into the driver.
package props

import (
	_ "verifharness/internal/c01"
	_ "verifharness/internal/c02"
	_ "verifharness/internal/c03"
	_ "verifharness/internal/c04"
	_ "verifharness/internal/c05"
	_ "verifharness/internal/c06"
	_ "verifharness/internal/c07"
	_ "verifharness/internal/c08"
	_ "verifharness/internal/c09"
	_ "verifharness/internal/c10"
	_ "verifharness/internal/c11"
	_ "verifharness/internal/c13"
	_ "verifharness/internal/c14"
	_ "verifharness/internal/c15"
	_ "verifharness/internal/c16"
	_ "verifharness/internal/c17"
	_ "verifharness/internal/c18"
	_ "verifharness/internal/c19"
	_ "verifharness/internal/c20"
)
