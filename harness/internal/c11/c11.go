// Package c11 monitors properties C11 (R-tree search answers equal a
// brute-force scan after any insert/delete history, with structural
// invariants) and C12 (nearest-neighbour queries).
package c11

import (
	"fmt"
	"math"
	"sort"

	"github.com/ctessum/geom"
	"github.com/ctessum/geom/index/rtree"

	"verifharness/internal/core"
	"verifharness/internal/gen"
)

func init() {
	core.Register(&core.Prop{
		ID: "C11",
		Rule: "case = one insert/delete history (50-2000 operations built from phases: grow, drain to empty, refill, oscillate around split/underflow sizes, delete in insertion / reverse / random order, absent-object deletes) on a tree with branching parameters drawn from all valid (min,max), 2<=min<=max/2, max<=16; objects are *Bounds pointers, Point values (duplicates equal) and a harness pointer type (6%: a new object whose Bounds() returns the very box pointer of a stored object, inserted or deleted while absent; 3% with an empty bounding box, 1% so large that areas overflow), on a small integer grid (coincident and touching boxes frequent) or floats; runs of concentric boxes stored outside-in followed by their centre point; 15% of histories draw most objects from a palette of 1..5 boxes (whole nodes of coincident entries), half of those with fan-outs 17..100; " +
			"after EVERY operation a brute-force multiset model is compared (Size, Delete result, 6 SearchIntersect queries incl. degenerate/touching/empty/whole-space) and the hooked node structure is walked (all leaves at one depth, Depth() equals it, every entry box == exact envelope of its subtree, fan-out <= max, leaf entries carry objects, objects in leaves == Size); " +
			"an evaluation is one operation judged; non-trivial = history in which the walker observed a root collapse (height decrease); distinct by history hash",
		Assumptions: []string{"objects are comparable (pointers, points, boxes) as the property states", "parent-link and level consistency are recorded, not judged (not stated by the property)"},
		Phases: []core.Phase{{Name: "histories", NumCases: func(t string) int {
			if t == "thorough" {
				return 30000
			}
			return 800
		}}},
		Run: func(c *core.Ctx, idx int) { runHistory(c, idx, false) },
		Floors: func(t string) map[string]int64 {
			return map[string]int64{"walker.root_collapse": 100, "walker.height>=3": 50, "hist.drained_to_empty": 50, "delete.absent": 1000, "delete.duplicate_object": 100, "query.touching": 1000, "query.unbounded": 1000, "obj.unbounded_box": 100, "query.degenerate": 1000, "obj.*Bounds": 1000, "obj.Point": 1000, "obj.harness_pointer": 1000, "obj.shares_bounds_pointer_with_stored": 500}
		},
	})
	core.Register(&core.Prop{
		ID: "C12",
		Rule: "case = one tree produced by a C11-style insert/delete history (so shapes after deletes and root collapses are included) queried with NearestNeighbor and NearestNeighbors for k in {1,2,3,5,Size-1,Size,Size+3} at points inside boxes, on borders and corners, outside the root box, far away and so far away (1e140..1e300) that squared distances overflow; oracle = sorted brute-force box distances (ties compared by distance); " +
			"an evaluation is one query judged; non-trivial = query with k>1 on a tree of depth >= 2 (walker-confirmed); distinct by (history hash, query)",
		Assumptions: []string{"box distance = Euclidean distance from the point to the closed bounding box", "distances compared to 1e-12 relative"},
		Phases: []core.Phase{{Name: "queries", NumCases: func(t string) int {
			if t == "thorough" {
				return 40000
			}
			return 3000
		}}},
		Run: func(c *core.Ctx, idx int) { runHistory(c, idx, true) },
		Floors: func(t string) map[string]int64 {
			return map[string]int64{"nn.k>1.depth>=2": 1000, "nn.depth>=3": 100, "nn.k>=size": 200, "nn.point_on_border": 300, "nn.point_outside_root": 300, "nn.beyond_1e140": 100, "nn.after_root_collapse": 100, "nn.single": 1000, "hist.grid_values_one_ulp_apart": 150}
		},
	})
}

// boxObj is the harness pointer type: a Geom by embedding.
type bx = geom.Bounds

type boxObj struct {
	*bx
	id int
}

type stored struct {
	obj geom.Geom
	box geom.Bounds
	id  int
}

type hist struct {
	c                          *core.Ctx
	r                          *gen.R
	tree                       *rtree.Rtree
	min                        int
	max                        int
	model                      []stored
	nextID                     int
	float                      bool
	log                        []string
	hash                       *core.Hasher
	prevH                      int
	sawColl                    bool
	sawIntU                    bool
	removed                    []stored // previously deleted objects (for absent deletes)
	failed                     bool
	nn                         bool
	loose                      bool          // C12: the last structure walk saw a non-tight node box
	far                        float64       // when > 0, one object in six is an outlier at this distance
	keptNN, keptNNCopy         []geom.Geom   // the previous NearestNeighbors result and a copy of it
	keptSearch, keptSearchCopy []geom.Geom   // the previous SearchIntersect result and a copy of it
	looseBox, looseEnv         geom.Bounds   // that box and the true envelope of its subtree
	palette                    []geom.Bounds // when non-empty most new objects take one of these few boxes
	scale, offset              float64       // every X is (grid value + offset) * scale; scale is a power of two (1, 2^-570 or 2^1018 with offset 33)
	steer                      bool          // deletes are aimed, with the help of the hooked snapshot, at leaves under a chain of minimally filled nodes
	twoCol                     bool          // every X is one of two ADJACENT doubles (column col and col+1 of the one-ulp grid), Y is ordinary: every node box is at most one ulp wide
	col                        int
	sy, oy                     float64       // the same for Y (equal to scale, offset, or 1, 0 when only the X axis is at the end of the range)
}

func (h *hist) coord() float64 {
	if h.twoCol {
		return (float64(h.col+h.r.Intn(2)) + h.offset) * h.scale
	}
	if h.float {
		return (h.r.Range(0, 20) + h.offset) * h.scale
	}
	return (float64(h.r.Intn(12)) + h.offset) * h.scale
}

func (h *hist) coordY() float64 {
	if h.twoCol {
		// Y on the scale of the column spacing (one ulp of X), now and then far away
		switch {
		case h.r.Chance(0.3):
			return math.Round(h.r.Range(-6, 6)*2) / 2 * h.sy
		case h.r.Chance(0.1):
			return h.r.Range(-1000, 1000) * h.sy
		}
		return h.r.Range(-6, 6) * h.sy
	}
	if h.float {
		return (h.r.Range(0, 20) + h.oy) * h.sy
	}
	return (float64(h.r.Intn(12)) + h.oy) * h.sy
}

func (h *hist) newObj() stored {
	r := h.r
	h.nextID++
	x0, y0 := h.coord(), h.coordY()
	if h.far > 0 && r.Chance(0.17) {
		// an outlier 1e6 .. 1e13 times farther away than the local spacing: it shares nodes with
		// near objects, whose boxes then are hugely elongated
		if r.Bool() {
			x0 = h.far * r.Range(1, 3) * float64(1-2*r.Intn(2))
		} else {
			y0 = h.far * r.Range(1, 3) * float64(1-2*r.Intn(2))
		}
		if !h.float {
			x0, y0 = math.Round(x0), math.Round(y0)
		}
	}
	w, ht := 0.0, 0.0
	if r.Chance(0.7) {
		if h.float {
			w, ht = r.Range(0, 4), r.Range(0, 4)
		} else {
			w, ht = float64(r.Intn(4)), float64(r.Intn(4))
		}
		w, ht = w*h.scale, ht*h.sy
	}
	if h.twoCol {
		// nothing wider than the two columns
		w, ht = 0, 0
		if x0 == (float64(h.col)+h.offset)*h.scale && r.Chance(0.3) {
			w = h.scale
		}
		if r.Chance(0.3) {
			ht = r.Range(0, 2) * h.sy
		}
	}
	b := geom.Bounds{Min: geom.Point{X: x0, Y: y0}, Max: geom.Point{X: x0 + w, Y: y0 + ht}}
	if r.Chance(0.03) {
		// an object whose bounding box is empty (an empty polygon, the box NewBounds returns): it
		// can be stored, counted and deleted, and no query box shares a point with it
		h.c.Count("obj.empty_bounds")
		if r.Bool() {
			e := geom.NewBounds()
			return stored{obj: e, box: *e, id: h.nextID}
		}
		e := geom.NewBounds()
		return stored{obj: &boxObj{bx: e, id: h.nextID}, box: *e, id: h.nextID}
	}
	if !h.nn && h.scale == 1 && r.Chance(0.01) {
		// a stored box that is unbounded on one or more sides (the envelope of a geometry with an
		// infinite ordinate): it shares a point with every query box that reaches into it
		inf := math.Inf(1)
		ub := geom.Bounds{Min: geom.Point{X: x0, Y: y0}, Max: geom.Point{X: x0 + 3, Y: y0 + 3}}
		switch r.Intn(4) {
		case 0:
			ub.Min.X = -inf
		case 1:
			ub.Min.Y = -inf
		case 2:
			ub.Max.X = inf
		default:
			ub.Min.X, ub.Min.Y = -inf, -inf
		}
		h.c.Count("obj.unbounded_box")
		return stored{obj: &ub, box: ub, id: h.nextID}
	}
	if !h.nn && h.scale == 1 && r.Chance(0.01) {
		// a box so large that its area (and every enlargement computed from it) overflows
		m := math.Pow(10, r.Range(150, 300))
		b = geom.Bounds{Min: geom.Point{X: -m * r.Range(0.5, 1), Y: -m * r.Range(0.5, 1)}, Max: geom.Point{X: m * r.Range(0.5, 1), Y: m * r.Range(0.5, 1)}}
		h.c.Count("obj.area_overflows")
		bb := b
		return stored{obj: &bb, box: b, id: h.nextID}
	}
	if len(h.model) > 0 && r.Chance(0.06) {
		// a different object whose Bounds() returns the very *Bounds pointer of a stored object
		// (records of one grid cell returning the cell's cached box; a box stored next to a
		// wrapper of it): objects are told apart by identity, never by their box pointer
		m := h.model[r.Intn(len(h.model))]
		var p *geom.Bounds
		switch o := m.obj.(type) {
		case *geom.Bounds:
			p = o
		case *boxObj:
			p = o.bx
		}
		if p != nil {
			h.c.Count("obj.shares_bounds_pointer_with_stored")
			return stored{obj: &boxObj{bx: p, id: h.nextID}, box: *p, id: h.nextID}
		}
	}
	if len(h.palette) > 0 && r.Chance(0.8) {
		// many coincident objects: whole nodes full of equal boxes
		b = h.palette[r.Intn(len(h.palette))]
		x0, y0 = b.Min.X, b.Min.Y
	}
	switch r.Intn(3) {
	case 0:
		bb := b
		h.c.Count("obj.*Bounds")
		return stored{obj: &bb, box: b, id: h.nextID}
	case 1:
		p := geom.Point{X: x0, Y: y0}
		h.c.Count("obj.Point")
		return stored{obj: p, box: geom.Bounds{Min: p, Max: p}, id: h.nextID}
	}
	bb := b
	h.c.Count("obj.harness_pointer")
	return stored{obj: &boxObj{bx: &bb, id: h.nextID}, box: b, id: h.nextID}
}

func (h *hist) logf(f string, a ...interface{}) {
	s := fmt.Sprintf(f, a...)
	h.log = append(h.log, s)
	h.hash.Str(s)
}

func descr(s stored) string {
	return fmt.Sprintf("%T#%d[%g,%g,%g,%g]", s.obj, s.id, s.box.Min.X, s.box.Min.Y, s.box.Max.X, s.box.Max.Y)
}

func (h *hist) detail() map[string]interface{} {
	lg := h.log
	if len(lg) > 400 {
		lg = append([]string{fmt.Sprintf("… %d earlier operations omitted (replay regenerates them) …", len(lg)-400)}, lg[len(lg)-400:]...)
	}
	return map[string]interface{}{"min": h.min, "max": h.max, "operations": lg, "size_model": len(h.model)}
}

func (h *hist) violate(key, what string) {
	h.failed = true
	h.c.Violate(key, what, h.detail())
}

func (h *hist) insert(s stored) {
	h.logf("Insert %s", descr(s))
	if h.c.Guard("Insert", h.detail(), func() { h.tree.Insert(s.obj) }) {
		h.failed = true
		return
	}
	h.model = append(h.model, s)
	h.afterOp()
}

func (h *hist) delete(s stored, present bool) {
	// equal Point values are the same object as far as the tree can tell
	present = inModel(h.model, s.obj)
	h.logf("Delete %s (present=%v)", descr(s), present)
	var ok bool
	if h.c.Guard("Delete", h.detail(), func() { ok = h.tree.Delete(s.obj) }) {
		h.failed = true
		return
	}
	if present {
		// remove one equal element from the model
		for i, m := range h.model {
			if m.obj == s.obj {
				h.removed = append(h.removed, m)
				h.model = append(h.model[:i], h.model[i+1:]...)
				break
			}
		}
		if !ok {
			h.violate("delete-stored-false", fmt.Sprintf("Delete(%s) of a stored object returned false", descr(s)))
			return
		}
	} else {
		h.c.Count("delete.absent")
		if ok {
			h.violate("delete-absent-true", fmt.Sprintf("Delete(%s) of an absent object returned true", descr(s)))
			return
		}
	}
	h.afterOp()
}

// steeredDelete looks, in the hooked snapshot, for a leaf that is minimally filled and hangs
// under the longest chain of minimally filled ancestors (the root excluded), and deletes one of
// its objects: the delete then underflows that many consecutive levels at once and re-inserts
// their orphans. Reports the chain length (0: no such leaf).
func (h *hist) steeredDelete() int {
	root := h.tree.VerifSnapshot()
	if len(root.Boxes) < h.max && h.r.Chance(0.8) {
		// the re-insertions are most interesting when they can split the root: fill it first
		return -1
	}
	best, bestLen, bestFull := (*rtree.VerifNode)(nil), 0, false
	var rec func(n *rtree.VerifNode, chain, depth int, isRoot bool)
	rec = func(n *rtree.VerifNode, chain, depth int, isRoot bool) {
		if !isRoot && len(n.Boxes) == h.min {
			chain++
		} else {
			chain = 0
		}
		if n.Leaf {
			// a chain that reaches up to the child of the root counts most
			full := chain >= 3 && chain == depth-1
			if full && !bestFull || full == bestFull && (chain > bestLen || chain == bestLen && chain > 0 && h.r.Chance(0.3)) {
				best, bestLen, bestFull = n, chain, full
			}
			return
		}
		for _, ch := range n.Children {
			if ch != nil {
				rec(ch, chain, depth+1, false)
			}
		}
	}
	rec(root, 0, 1, true)
	if bestFull {
		h.c.Count("steered.chain_from_leaf_to_child_of_root")
	}
	if best == nil || len(best.Objs) == 0 {
		return 0
	}
	obj := best.Objs[h.r.Intn(len(best.Objs))]
	for _, m := range h.model {
		if m.obj == obj {
			h.delete(m, true)
			return bestLen
		}
	}
	return 0
}

func inModel(model []stored, obj geom.Geom) bool {
	for _, m := range model {
		if m.obj == obj {
			return true
		}
	}
	return false
}

func closedIntersect(a, b *geom.Bounds) bool {
	// an empty box (Max below Min on an axis, e.g. the bounds of an empty polygon) holds no point,
	// whatever it is compared with - also an unbounded box
	if a.Max.X < a.Min.X || a.Max.Y < a.Min.Y || b.Max.X < b.Min.X || b.Max.Y < b.Min.Y {
		return false
	}
	return a.Min.X <= b.Max.X && b.Min.X <= a.Max.X && a.Min.Y <= b.Max.Y && b.Min.Y <= a.Max.Y
}

// multiset comparison by object identity/equality
func sameMultiset(got []geom.Geom, want []stored) (bool, string) {
	used := make([]bool, len(want))
	for _, g := range got {
		if g == nil {
			return false, "nil element in the result"
		}
		found := false
		for i, w := range want {
			if !used[i] && w.obj == g {
				used[i] = true
				found = true
				break
			}
		}
		if !found {
			return false, fmt.Sprintf("result contains %T %v which the scan does not (or too many copies)", g, g.Bounds())
		}
	}
	for i, u := range used {
		if !u {
			return false, "result misses " + descr(want[i])
		}
	}
	return true, ""
}

func (h *hist) afterOp() {
	c := h.c
	if !h.nn {
		c.Eval()
	}
	// Size
	if sz := h.tree.Size(); sz != len(h.model) && !h.nn {
		h.violate("size", fmt.Sprintf("Size() = %d, %d objects stored", sz, len(h.model)))
		return
	}
	// structure walk
	if !h.walk() {
		return
	}
	if h.nn {
		return
	}
	// queries
	r := h.r
	for q := 0; q < 7; q++ {
		var qb geom.Bounds
		kind := ""
		switch q {
		case 6:
			// unbounded query boxes: a half-plane, a quadrant, a strip or the whole plane
			inf := math.Inf(1)
			qb = geom.Bounds{Min: geom.Point{X: -inf, Y: -inf}, Max: geom.Point{X: inf, Y: inf}}
			switch r.Intn(5) {
			case 0:
				qb.Max.X = h.coord()
			case 1:
				qb.Min.Y = h.coordY()
			case 2:
				qb.Min.X, qb.Max.Y = h.coord(), h.coordY()
			case 3:
				y := h.coordY()
				qb.Min.Y, qb.Max.Y = y, y+2*h.sy
			}
			kind = "unbounded"
			c.Count("query.unbounded")
		case 0:
			qb = geom.Bounds{Min: geom.Point{X: -1e9 * h.scale, Y: -1e9 * h.sy}, Max: geom.Point{X: 1e9 * h.scale, Y: 1e9 * h.sy}}
			if h.scale > 1 {
				qb = geom.Bounds{Min: geom.Point{X: -math.MaxFloat64, Y: -math.MaxFloat64}, Max: geom.Point{X: math.MaxFloat64, Y: math.MaxFloat64}}
			}
			kind = "whole"
		case 1:
			x, y := h.coord(), h.coordY()
			qb = geom.Bounds{Min: geom.Point{X: x, Y: y}, Max: geom.Point{X: x + (h.coord()-h.offset*h.scale)/2, Y: y + (h.coordY()-h.oy*h.sy)/2}}
			kind = "random"
		case 2:
			x, y := h.coord(), h.coordY()
			qb = geom.Bounds{Min: geom.Point{X: x, Y: y}, Max: geom.Point{X: x, Y: y}}
			kind = "degenerate"
			c.Count("query.degenerate")
		case 3, 4:
			if len(h.model) == 0 {
				continue
			}
			m := h.model[r.Intn(len(h.model))].box
			step := h.scale
			if q == 4 {
				step = 0 // exactly on the edge
			}
			// box to the right of m, touching its right edge (step 0) or one grid step away
			qb = geom.Bounds{Min: geom.Point{X: m.Max.X + step, Y: m.Min.Y}, Max: geom.Point{X: m.Max.X + step + h.scale, Y: m.Max.Y}}
			kind = "touching"
			c.Count("query.touching")
		case 5:
			qb = geom.Bounds{Min: geom.Point{X: 500 * h.scale, Y: 500 * h.sy}, Max: geom.Point{X: 501 * h.scale, Y: 501 * h.sy}}
			if h.scale > 1 {
				qb = geom.Bounds{Min: geom.Point{X: 1 * h.scale, Y: 1 * h.sy}, Max: geom.Point{X: 2 * h.scale, Y: 61 * h.sy}}
			}
			kind = "empty-region"
		}
		var want []stored
		for _, m := range h.model {
			mb := m.box
			if closedIntersect(&mb, &qb) {
				want = append(want, m)
			}
		}
		var got []geom.Geom
		if c.Guard("SearchIntersect", h.detail(), func() { got = h.tree.SearchIntersect(&qb) }) {
			h.failed = true
			return
		}
		// the slice an earlier search returned belongs to its caller: later calls (searches,
		// inserts, deletes) must not change it
		for i := range h.keptSearch {
			if h.keptSearch[i] != h.keptSearchCopy[i] {
				h.failed = true
				c.Violate("search-earlier-result-changed", fmt.Sprintf("slot %d of the slice returned by an earlier SearchIntersect call changed during later calls", i), h.detail())
				return
			}
		}
		h.keptSearch, h.keptSearchCopy = got, append([]geom.Geom(nil), got...)
		if ok, why := sameMultiset(got, want); !ok {
			d := h.detail()
			d["query"] = fmt.Sprintf("[%g,%g,%g,%g] (%s)", qb.Min.X, qb.Min.Y, qb.Max.X, qb.Max.Y, kind)
			h.failed = true
			c.Violate("search:"+kind, fmt.Sprintf("SearchIntersect(%s box) returned %d objects, brute-force scan %d: %s", kind, len(got), len(want), why), d)
			return
		}
	}
}

// walk checks the structural invariants on the hooked snapshot.
func (h *hist) walk() bool {
	c := h.c
	root := h.tree.VerifSnapshot()
	leafDepth := -1
	objs := 0
	maxFan := 0
	parentBad, levelBad := 0, 0
	problem := ""
	key := ""
	var rec func(n *rtree.VerifNode, depth int) (env geom.Bounds, has bool)
	rec = func(n *rtree.VerifNode, depth int) (env geom.Bounds, has bool) {
		if !n.ParentOK {
			parentBad++
		}
		if len(n.Boxes) > maxFan {
			maxFan = len(n.Boxes)
		}
		if n.Leaf {
			if leafDepth == -1 {
				leafDepth = depth
			} else if leafDepth != depth && problem == "" {
				problem, key = fmt.Sprintf("leaves at depths %d and %d", leafDepth, depth), "walker-unbalanced"
			}
		}
		for i := range n.Boxes {
			b := n.Boxes[i]
			if n.Leaf {
				if n.Objs[i] == nil || n.Children[i] != nil {
					if problem == "" {
						problem, key = "leaf entry without an object (or with a child)", "walker-leaf-entry"
					}
					continue
				}
				objs++
				ob := n.Objs[i].Bounds()
				if ob == nil || *ob != b {
					if problem == "" {
						problem, key = fmt.Sprintf("leaf entry box %v differs from its object's bounds", b), "walker-envelope"
					}
				}
			} else {
				if n.Children[i] == nil || n.Objs[i] != nil {
					if problem == "" {
						problem, key = "internal entry without a child (or with an object)", "walker-internal-entry"
					}
					continue
				}
				ch := n.Children[i]
				if ch.Level != n.Level-1 {
					levelBad++
				}
				ce, chHas := rec(ch, depth+1)
				if !chHas {
					if problem == "" {
						problem, key = "internal entry pointing at an empty node", "walker-empty-node"
					}
				} else if ce != b && problem == "" {
					h.looseBox, h.looseEnv = b, ce
					problem, key = fmt.Sprintf("entry box %v is not the exact envelope %v of its subtree (depth %d)", b, ce, depth), "walker-envelope"
				}
			}
			if !has {
				env, has = b, true
			} else {
				env.Min.X, env.Min.Y = math.Min(env.Min.X, b.Min.X), math.Min(env.Min.Y, b.Min.Y)
				env.Max.X, env.Max.Y = math.Max(env.Max.X, b.Max.X), math.Max(env.Max.Y, b.Max.Y)
			}
		}
		return
	}
	rec(root, 1)
	if leafDepth == -1 {
		// no leaf reached: only legal for ... nothing; an empty tree still has a leaf root
		problem, key = "no leaf node reachable from the root", "walker-no-leaf"
	}
	if problem == "" && maxFan > h.max {
		problem, key = fmt.Sprintf("node with %d entries, maximum fan-out is %d", maxFan, h.max), "walker-fanout"
	}
	if problem == "" && objs != len(h.model) {
		problem, key = fmt.Sprintf("%d objects in leaves, %d stored", objs, len(h.model)), "walker-object-count"
	}
	if problem == "" && h.tree.Depth() != leafDepth {
		problem, key = fmt.Sprintf("Depth() = %d but leaves are at depth %d", h.tree.Depth(), leafDepth), "walker-depth"
	}
	if parentBad > 0 {
		c.Count("walker.note.parent_link_inconsistent")
	}
	if levelBad > 0 {
		c.Count("walker.note.level_inconsistent")
	}
	if leafDepth >= 3 {
		c.Count("walker.height>=3")
	}
	c.Max("tree_height", float64(leafDepth))
	if h.prevH > 0 && leafDepth < h.prevH {
		c.Count("walker.root_collapse")
		h.sawColl = true
	}
	h.prevH = leafDepth
	if problem != "" {
		if h.nn {
			// C12 only uses the walk for tree-shape coverage; structure is C11's business
			c.Count("walker.note.structure_problem_seen")
			h.loose = true
			return true
		}
		h.violate(key, "structure walk after the last operation: "+problem)
		return false
	}
	return true
}

var paramPairs = func() [][2]int {
	var o [][2]int
	for max := 4; max <= 16; max++ {
		for min := 2; min <= max/2; min++ {
			o = append(o, [2]int{min, max})
		}
	}
	return o
}()

func runHistory(c *core.Ctx, idx int, nn bool) {
	r := c.R
	pp := paramPairs[r.Intn(len(paramPairs))]
	if r.Chance(0.4) {
		pp = paramPairs[r.Intn(6)] // small fan-outs make deep trees
	} else if r.Chance(0.2) {
		pp = [][2]int{{25, 50}, {2, 64}, {32, 64}, {3, 100}, {16, 33}, {2, 40}, {10, 32}, {8, 17}, {20, 41}, {5, 48}}[r.Intn(10)] // large fan-outs (route uses 25/50)
	}
	h := &hist{c: c, r: r, min: pp[0], max: pp[1], float: r.Chance(0.3), hash: core.NewHasher(), nn: nn}
	h.scale, h.sy = 1, 1
	if r.Chance(0.12) {
		h.far = math.Pow(10, r.Range(6, 19)) // (beyond 2^53 the sum of a box side at the outlier and an ordinary one absorbs the ordinary one)
		c.Count("hist.with_far_outliers")
	} else if r.Chance(0.12) || nn && r.Chance(0.25) {
		// the same grids at the ends of the float64 range (exact: a power of two): products of two
		// coordinate differences underflow to zero, or sums of two coordinates overflow
		if r.Bool() {
			h.scale = math.Ldexp(1, -570)
			if r.Bool() {
				h.scale = math.Ldexp(1, -538) // squares of the differences are denormal: a digit or two of precision
				h.float = h.float || r.Chance(0.7)
				c.Count("hist.squares_of_differences_denormal")
			}
			h.sy = h.scale
			c.Count("hist.coordinates_of_magnitude_1e-170")
		} else {
			// [33, 61) * 2^1018 = 9.3e307 .. 1.7e308: the sum of two coordinates overflows, their
			// differences (and the distances) do not
			h.scale, h.offset = math.Ldexp(1, 1018), 33
			h.sy, h.oy = h.scale, h.offset
			if r.Bool() {
				// only the X axis: squared X differences overflow unless they are exactly zero,
				// the Y differences are ordinary
				h.sy, h.oy = 1, 0
				c.Count("hist.x_of_magnitude_1e308_y_ordinary")
			}
			c.Count("hist.coordinates_of_magnitude_1e308")
		}
	}
	if h.scale == 1 && h.far == 0 && (nn && r.Chance(0.12) || r.Chance(0.04)) {
		// the integer grid moved out to 2^52, where neighbouring grid values are ONE ulp apart (or,
		// scaled by 2^-52, the doubles 1, 1+2^-52, 1+2*2^-52, ...): boxes are a few ulps wide, and a
		// midpoint or a half-sum of two of their coordinates is rounded onto one of them
		h.float = false
		h.offset = math.Ldexp(1, 52)
		if r.Bool() {
			h.scale = math.Ldexp(1, -52)
		}
		if r.Chance(0.6) {
			h.sy, h.oy = h.scale, h.offset
		}
		if r.Chance(0.5) {
			h.twoCol, h.col = true, r.Intn(8)
			h.sy, h.oy = h.scale, 0
			c.Count("hist.two_adjacent_columns")
		}
		c.Count("hist.grid_values_one_ulp_apart")
	}
	if r.Chance(0.15) {
		// few distinct boxes (1..5) shared by most objects
		np := r.IntRange(1, 5)
		for len(h.palette) < np {
			if b := h.newObj().box; !(b.Max.X < b.Min.X) {
				h.palette = append(h.palette, b)
			}
		}
		h.nextID = 0
		c.Count("hist.palette_of_few_boxes")
		if r.Bool() {
			pp = [][2]int{{25, 50}, {2, 64}, {32, 64}, {3, 100}, {16, 33}, {2, 40}, {10, 32}, {8, 17}}[r.Intn(8)]
			h.min, h.max = pp[0], pp[1]
		}
	}
	if !nn && h.scale == 1 && h.far == 0 && len(h.palette) == 0 && r.Chance(0.25) {
		// deep trees of the smallest fan-outs, long histories, deletes aimed at chains of minimally
		// filled nodes: several levels underflow in one Delete and their orphans are re-inserted
		// (with splits up to the root) while the tree is being condensed
		h.steer = true
		pp = [][2]int{{2, 4}, {2, 4}, {2, 4}, {2, 5}, {3, 6}}[r.Intn(5)]
		h.min, h.max = pp[0], pp[1]
		c.Count("hist.steered_deletes")
	}
	h.tree = rtree.NewTree(h.min, h.max)
	h.hash.Int(h.min).Int(h.max)
	c.Count(fmt.Sprintf("params.%d_%d", h.min, h.max))
	budget := r.IntRange(50, 400)
	if c.Thorough() && r.Chance(0.2) {
		budget = r.IntRange(400, 2000)
	}
	if nn {
		budget = r.IntRange(20, 300)
	}
	if h.steer {
		budget = r.IntRange(800, 2000)
	}
	ops := 0
	step := func() bool { ops++; return !h.failed && ops < budget }
	phases := 0
	for !h.failed && ops < budget {
		phases++
		pick := r.Intn(9)
		if h.max >= 32 && r.Chance(0.25) {
			pick = 8
		}
		if h.steer {
			// keep 60..160 objects; most of the time aimed deletes, each followed by an insert or two
			switch {
			case len(h.model) < 60:
				pick = 6
			case len(h.model) > 160:
				pick = 5
			case r.Chance(0.7):
				pick = 9
			default:
				pick = []int{0, 2, 2, 7}[r.Intn(4)]
			}
		}
		switch pick {
		case 8: // concentric boxes stored outside-in (each new box strictly inside all earlier ones), then their common centre as a point
			cx, cy := h.coord(), h.coordY()
			n := r.IntRange(3, h.max+3)
			for i := 0; i < n && step(); i++ {
				half := float64(n-i) * 0.01
				if !h.float {
					half = float64(n - i)
				}
				halfY := half * h.sy
				half *= h.scale
				s := h.newObj()
				b := geom.Bounds{Min: geom.Point{X: cx - half, Y: cy - halfY}, Max: geom.Point{X: cx + half, Y: cy + halfY}}
				switch o := s.obj.(type) {
				case *geom.Bounds:
					*o = b
					s.box = b
				case *boxObj:
					// (a fresh box: the one newObj gave it may be shared with a stored object)
					bb := b
					o.bx = &bb
					s.box = b
				default:
					bb := b
					s = stored{obj: &bb, box: b, id: s.id}
				}
				h.insert(s)
			}
			if step() {
				p := geom.Point{X: cx, Y: cy}
				h.nextID++
				h.insert(stored{obj: p, box: geom.Bounds{Min: p, Max: p}, id: h.nextID})
			}
			h.c.Count("hist.concentric_outside_in")
		case 9: // aimed deletes
			for k := r.IntRange(1, 6); k > 0 && step(); k-- {
				switch n := h.steeredDelete(); {
				case n >= 3:
					c.Count("steered.delete_underflowing>=3_levels")
				case n == 2:
					c.Count("steered.delete_underflowing_2_levels")
				case n == 0:
					if len(h.model) > 0 {
						h.delete(h.model[r.Intn(len(h.model))], true)
					}
				case n < 0:
					h.insert(h.newObj())
				}
				if r.Bool() && step() {
					h.insert(h.newObj())
				}
			}
		case 0: // grow
			n := r.IntRange(1, 3*h.max)
			for i := 0; i < n && step(); i++ {
				h.insert(h.newObj())
			}
		case 1: // drain to empty in insertion, reverse or random order
			order := r.Intn(3)
			for len(h.model) > 0 && step() {
				var s stored
				switch order {
				case 0:
					s = h.model[0]
				case 1:
					s = h.model[len(h.model)-1]
				default:
					s = h.model[r.Intn(len(h.model))]
				}
				h.delete(s, true)
			}
			if len(h.model) == 0 && !h.failed {
				c.Count("hist.drained_to_empty")
			}
		case 2: // oscillate ±1
			n := r.IntRange(2, 20)
			for i := 0; i < n && step(); i++ {
				if len(h.model) > 0 && r.Bool() {
					h.delete(h.model[r.Intn(len(h.model))], true)
				} else {
					h.insert(h.newObj())
				}
			}
		case 3: // absent deletes
			for k := 0; k < 3 && step(); k++ {
				switch r.Intn(3) {
				case 0:
					h.delete(h.newObj(), false)
				case 1:
					if len(h.removed) > 0 {
						s := h.removed[r.Intn(len(h.removed))]
						if !inModel(h.model, s.obj) {
							h.delete(s, false)
						}
					}
				case 2: // equal box, different identity
					if len(h.model) > 0 {
						m := h.model[r.Intn(len(h.model))]
						b := m.box
						s := stored{obj: &b, box: m.box, id: -m.id}
						if _, isPt := m.obj.(geom.Point); isPt {
							s = stored{obj: &boxObj{bx: &b}, box: m.box, id: -m.id}
						}
						h.delete(s, false)
					}
				}
			}
		case 4: // same object inserted again (duplicates), coincident boxes
			if len(h.model) > 0 && step() {
				m := h.model[r.Intn(len(h.model))]
				c.Count("delete.duplicate_object")
				h.insert(m)
				if r.Bool() && step() {
					h.delete(m, true)
				}
			}
		case 5: // delete about half
			n := len(h.model) / 2
			for i := 0; i < n && step(); i++ {
				h.delete(h.model[r.Intn(len(h.model))], true)
			}
		case 6: // refill to a multiple of max
			n := r.IntRange(h.max, 4*h.max)
			for i := 0; i < n && step(); i++ {
				h.insert(h.newObj())
			}
		case 7: // cluster of coincident boxes
			base := h.newObj()
			n := r.IntRange(2, h.max+2)
			for i := 0; i < n && step(); i++ {
				s := h.newObj()
				if pb, ok := s.obj.(*geom.Bounds); ok {
					*pb = base.box
					s.box = base.box
				}
				h.insert(s)
			}
		}
		if nn && !h.failed && len(h.model) > 0 && r.Chance(0.5) {
			h.queryNN()
		}
	}
	if nn && !h.failed && len(h.model) > 0 {
		h.queryNN()
	}
	if !nn {
		if h.sawColl {
			c.Nontrivial(h.hash.Sum())
		}
		if c.WantSample() && h.sawColl {
			lg := h.log
			if len(lg) > 25 {
				lg = lg[:25]
			}
			c.Sample(map[string]interface{}{"min": h.min, "max": h.max, "operations_total": len(h.log), "first_operations": lg})
		}
	}
}

func boxDist(p geom.Point, b *geom.Bounds) float64 {
	dx := math.Max(0, math.Max(b.Min.X-p.X, p.X-b.Max.X))
	dy := math.Max(0, math.Max(b.Min.Y-p.Y, p.Y-b.Max.Y))
	return math.Hypot(dx, dy)
}

func (h *hist) queryNN() {
	c, r := h.c, h.r
	size := len(h.model)
	depth := h.prevH
	nq := 6
	if h.loose {
		// the structure walk has just seen a node box that is not the tight envelope of its
		// subtree (C11 judges that); MINMAXDIST pruning relies on tight boxes, so the
		// neighbourhood of the tree is now queried densely
		nq = 250
		h.loose = false
		c.Count("nn.burst_after_loose_envelope")
	}
	if h.scale == math.Ldexp(1, -538) && nq == 6 {
		nq = 40 // wrong answers at this scale are rare per query (a few in 10000)
	}
	xOnly := h.scale > 1 && h.sy == 1 || h.twoCol
	if xOnly && nq == 6 {
		// X ordinates that coincide exactly with stored ones are the only X differences whose
		// square does not overflow: many queries on the grid lines, above, below and between
		nq = 40
	}
	for q := 0; q < nq; q++ {
		var p geom.Point
		m := h.model[r.Intn(size)].box
		cat := ""
		pick := r.Intn(6)
		if nq > 40 {
			pick = 5
		} else if xOnly && r.Chance(0.7) {
			pick = 6
		}
		switch pick {
		case 6:
			p = geom.Point{X: []float64{m.Min.X, m.Max.X}[r.Intn(2)], Y: r.Range(-15, 40)}
			if r.Bool() {
				p.Y = math.Round(p.Y*2) / 2
			}
			if h.twoCol {
				// on one of the two columns, next to a stored object or anywhere along the column
				p.X = (float64(h.col+r.Intn(2)) + h.offset) * h.scale
				p.Y = m.Min.Y + r.Range(-3, 3)*h.sy
				if r.Chance(0.2) {
					p.Y = r.Range(-8, 8) * h.sy
				}
			}
			cat = "x_equal_to_a_stored_ordinate"
		case 5:
			p = geom.Point{X: (r.Range(-12, 36) + h.offset) * h.scale, Y: (r.Range(-12, 36) + h.oy) * h.sy}
			if nq > 40 && r.Chance(0.7) {
				// next to a face of the loose box that its contents no longer reach
				b, e := h.looseBox, h.looseEnv
				slackTop, slackBot, slackR, slackL := b.Max.Y-e.Max.Y, e.Min.Y-b.Min.Y, b.Max.X-e.Max.X, e.Min.X-b.Min.X
				w := math.Max(b.Max.X-b.Min.X, b.Max.Y-b.Min.Y) + 2*h.scale
				switch {
				case slackTop > 0 && r.Chance(0.6):
					p = geom.Point{X: r.Range(b.Min.X-w, b.Max.X+w), Y: r.Range(e.Max.Y, b.Max.Y+2*slackTop+w)}
				case slackBot > 0 && r.Chance(0.6):
					p = geom.Point{X: r.Range(b.Min.X-w, b.Max.X+w), Y: r.Range(b.Min.Y-2*slackBot-w, e.Min.Y)}
				case slackR > 0 && r.Chance(0.6):
					p = geom.Point{X: r.Range(e.Max.X, b.Max.X+2*slackR+w), Y: r.Range(b.Min.Y-w, b.Max.Y+w)}
				case slackL > 0:
					p = geom.Point{X: r.Range(b.Min.X-2*slackL-w, e.Min.X), Y: r.Range(b.Min.Y-w, b.Max.Y+w)}
				}
			}
			if !h.float && r.Bool() {
				p = geom.Point{X: math.Round(p.X/h.scale*4) / 4 * h.scale, Y: math.Round(p.Y/h.sy*4) / 4 * h.sy} // (the offset is whole)
			}
			cat = "around_the_root_box"
		case 0:
			p = geom.Point{X: m.Min.X/2 + m.Max.X/2, Y: m.Min.Y/2 + m.Max.Y/2}
			cat = "inside_box"
		case 1:
			p = geom.Point{X: m.Max.X, Y: m.Min.Y + (m.Max.Y-m.Min.Y)*r.Float64()}
			if r.Bool() {
				p = m.Min
			}
			cat = "point_on_border"
		case 2:
			p = geom.Point{X: (-5 - r.Range(0, 10) + h.offset) * h.scale, Y: h.coordY()}
			if r.Bool() {
				p = geom.Point{X: h.coord(), Y: (30 + r.Range(0, 10) + h.oy) * h.sy}
			}
			cat = "point_outside_root"
		case 3:
			p = geom.Point{X: r.Range(-1e6, 1e6) * h.scale, Y: r.Range(-1e6, 1e6) * h.sy}
			if h.scale > 1 {
				p.X = r.Range(0, 63) * h.scale
				if h.sy > 1 {
					p.Y = r.Range(0, 63) * h.sy
				}
			}
			cat = "far_away"
			if h.scale == 1 && r.Chance(0.4) {
				// so far that squared distances leave the float64 range (the distances
				// themselves stay below 1e301 and are representable)
				mag := func() float64 {
					v := math.Pow(10, r.Range(140, 300))
					if r.Bool() {
						v = -v
					}
					return v
				}
				p = geom.Point{X: mag(), Y: mag()}
				if r.Chance(0.4) {
					p.Y = h.coordY()
				} else if r.Chance(0.3) {
					p.X = h.coord()
				}
				cat = "beyond_1e140"
			}
		default:
			p = geom.Point{X: h.coord() + r.Float64()*h.scale, Y: h.coordY() + r.Float64()*h.sy}
			cat = "random"
		}
		if h.scale > 1 {
			// keep the query point finite (63.9 * 2^1018 < MaxFloat64)
			p.X = math.Max(-63.9*h.scale, math.Min(63.9*h.scale, p.X))
			if h.sy > 1 {
				p.Y = math.Max(-63.9*h.sy, math.Min(63.9*h.sy, p.Y))
			}
		}
		if math.IsNaN(p.X) || math.IsNaN(p.Y) || math.IsInf(p.X, 0) || math.IsInf(p.Y, 0) {
			// (the arithmetic that places a query next to a loose node box can overflow on the
			// grids at the end of the float64 range: not a query point)
			c.Count("nn.skipped_non_finite_query_point")
			continue
		}
		c.Count("nn." + cat)
		dists := make([]float64, size)
		for i, s := range h.model {
			b := s.box
			dists[i] = boxDist(p, &b)
		}
		sort.Float64s(dists)
		d := h.detail()
		d["query_point"] = []float64{p.X, p.Y}
		tol := func(x float64) float64 { return 1e-12 * math.Max(math.Min(h.scale, h.sy), x) }
		// distances beyond the float64 range are +Inf on both sides
		differ := func(got, want float64) bool {
			if math.IsInf(got, 1) || math.IsInf(want, 1) {
				return math.IsInf(got, 1) != math.IsInf(want, 1)
			}
			return math.Abs(got-want) > tol(want)
		}
		// NearestNeighbor
		c.Eval()
		c.Count("nn.single")
		var one geom.Geom
		if c.Guard("NearestNeighbor", d, func() { one = h.tree.NearestNeighbor(p) }) {
			h.failed = true
			return
		}
		if one == nil || !inModel(h.model, one) {
			h.failed = true
			c.Violate("nn1-not-stored", fmt.Sprintf("NearestNeighbor(%v) returned %v which is not a stored object", p, one), d)
			return
		}
		if got := boxDist(p, one.Bounds()); differ(got, dists[0]) {
			h.failed = true
			c.Violate("nn1-distance", fmt.Sprintf("NearestNeighbor(%v) is at distance %v, the minimum is %v", p, got, dists[0]), d)
			return
		}
		// NearestNeighbors
		ks := []int{1, 2, 3, 5, size - 1, size, size + 3}
		k := ks[r.Intn(len(ks))]
		if k < 1 {
			k = 1
		}
		c.Eval()
		if k > 1 && depth >= 2 {
			c.Count("nn.k>1.depth>=2")
			c.Nontrivial(core.NewHasher().U64(h.hash.Sum()).F64(p.X).F64(p.Y).Int(k).Sum())
		}
		if depth >= 3 {
			c.Count("nn.depth>=3")
		}
		if k >= size {
			c.Count("nn.k>=size")
		}
		if h.sawColl {
			c.Count("nn.after_root_collapse")
		}
		d["k"] = k
		if c.WantSample() && k > 1 && depth >= 2 {
			c.Sample(map[string]interface{}{"min": h.min, "max": h.max, "objects": size, "tree_depth": depth, "operations_before_query": len(h.log), "query_point": []float64{p.X, p.Y}, "k": k, "k_smallest_distances": dists[:minInt(k, size)]})
		}
		var got []geom.Geom
		if c.Guard("NearestNeighbors", d, func() { got = h.tree.NearestNeighbors(k, p) }) {
			h.failed = true
			return
		}
		// the slice an earlier call returned belongs to its caller: a later call must not change it
		if h.keptNN != nil {
			for i := range h.keptNN {
				if h.keptNN[i] != h.keptNNCopy[i] {
					h.failed = true
					c.Violate("nnk-earlier-result-changed", fmt.Sprintf("slot %d of the slice returned by an earlier NearestNeighbors call changed during a later call", i), d)
					return
				}
			}
			c.Count("nn.earlier_result_rechecked")
		}
		h.keptNN, h.keptNNCopy = got, append([]geom.Geom(nil), got...)
		want := k
		if size < k {
			want = size
		}
		if len(got) != k {
			h.failed = true
			c.Violate("nnk-length", fmt.Sprintf("NearestNeighbors(%d) returned %d slots", k, len(got)), d)
			return
		}
		var chosen []stored
		prev := -1.0
		used := make([]bool, size)
		for i := 0; i < k; i++ {
			g := got[i]
			if i >= want {
				if g != nil {
					h.failed = true
					c.Violate("nnk-extra", fmt.Sprintf("NearestNeighbors(%d) on %d objects: slot %d should be nil", k, size, i), d)
					return
				}
				continue
			}
			if g == nil {
				h.failed = true
				c.Violate("nnk-nil", fmt.Sprintf("NearestNeighbors(%d) on %d objects: slot %d is nil", k, size, i), d)
				return
			}
			found := false
			for j, s := range h.model {
				if !used[j] && s.obj == g {
					used[j] = true
					found = true
					chosen = append(chosen, s)
					break
				}
			}
			if !found {
				h.failed = true
				c.Violate("nnk-not-stored", fmt.Sprintf("NearestNeighbors(%d): slot %d is not a stored object or is returned more often than stored", k, i), d)
				return
			}
			gd := boxDist(p, g.Bounds())
			if gd < prev-tol(prev) && !math.IsInf(prev, 1) || math.IsInf(prev, 1) && !math.IsInf(gd, 1) {
				h.failed = true
				c.Violate("nnk-order", fmt.Sprintf("NearestNeighbors(%d): distances not non-decreasing at slot %d (%v after %v)", k, i, gd, prev), d)
				return
			}
			prev = gd
			if differ(gd, dists[i]) {
				h.failed = true
				kk := "k>1"
				if k == 1 {
					kk = "k=1"
				}
				c.Violate("nnk-distance:"+kk, fmt.Sprintf("NearestNeighbors(%d,%v): slot %d at distance %v, the %d-th smallest distance is %v (tree depth %d, %d objects)", k, p, i, gd, i+1, dists[i], depth, size), d)
				return
			}
		}
	}
}

var _ = gen.Dump

func minInt(a, b int) int {
	if a < b {
		return a
	}
	return b
}
