// Package c19 monitors property C19: ShortestRoute returns a minimum-cost
// path through the link network.
package c19

import (
	"container/heap"
	"fmt"
	"math"

	"github.com/ctessum/geom"
	"github.com/ctessum/geom/route"

	"verifharness/internal/core"
	"verifharness/internal/gen"
)

func init() {
	core.Register(&core.Prop{
		ID: "C19",
		Rule: "case = one network of 2-60 (300 thorough) nodes on a jittered grid with positive, well separated coordinates (trees, grids with diagonals, almost regular lattices of straight equal-speed links with thousands of near-tied chains, two components, a long cheap detour against a short expensive chain, fast-far against slow-near) whose links are poly-lines with 0-4 bends and positive speeds over four decades (0.01..100; a sixth of the networks with one common speed), added in random order and orientation, for Distance or Time minimisation, queried at 8 point pairs (random and exactly on nodes); a second phase (thorough tier only: building one takes a minute) builds 32 jittered grids of 50 000-110 000 nodes, half of them in a lon/lat window with 1e-4 degree spacing; 40% of networks are built incrementally in 2-4 batches with 4 queries after each batch, judged against exactly the links added so far (later AddLink calls then create new nodes and link already-existing nodes on a network that has answered queries); oracle = the harness's own graph (nodes by exact end-point equality) with Dijkstra: start/end nodes are the true nearest nodes, the returned links form a chain between them, reported totals are the sums over the returned links, the chosen cost equals the Dijkstra optimum (1e-9), disconnected pairs give an empty route; " +
			"an evaluation is one query judged; non-trivial = query whose optimal route has >= 2 links and differs in cost from the fewest-links route; distinct by (network hash, query)",
		Assumptions: []string{"no self loops, no parallel links (as the property states)", "queries whose nearest node is ambiguous within 1e-9 relative are skipped"},
		Phases: []core.Phase{{Name: "networks", NumCases: func(t string) int {
			if t == "thorough" {
				return 100000
			}
			return 2000
		}}, {Name: "unrepresentable_cost", NumCases: func(t string) int {
			if t == "thorough" {
				return 20000
			}
			return 600
		}}, {Name: "large", NumCases: func(t string) int {
			if t == "thorough" {
				return 32
			}
			return 0 // building one such network takes about a minute (two nearest-neighbour searches per AddLink)
		}}},
		Run: run,
		Floors: func(t string) map[string]int64 {
			if t == "thorough" {
				m := floorsC19()
				m["large.networks"], m["large.nodes"] = 16, 1000000
				return m
			}
			return floorsC19()
		},
	})
}

func floorsC19() map[string]int64 {
	return map[string]int64{"overflow.cases": 400, "overflow.Time": 100, "overflow.Distance": 100, "query.connected": 5000, "query.disconnected": 200, "query.same_node": 100, "query.optimal_differs_from_fewest_links": 200, "minimise.Distance": 300, "minimise.Time": 300, "topology.detour": 100, "topology.two_components": 100, "topology.grid": 100, "topology.tree": 100, "topology.near_tie_lattice": 100, "net.cell_beyond_1e155": 50, "query.on_node": 1000, "order.fastest_first": 100, "speeds.all_equal_below_1": 50, "query.nearly_equal_points_across_a_bisector": 500, "order.incremental_queries_between_addlinks": 300, "incremental.link_between_existing_nodes_after_query": 300}
}

type link struct {
	a, b        int
	line        geom.LineString
	length      float64
	speed, time float64
}

type netw struct {
	nodes []geom.Point
	links []link
	adj   map[int][]int // node -> link indices
}

func (n *netw) addLink(r *gen.R, a, b int, speed float64, bends int, stretch float64) {
	if a == b {
		return
	}
	for _, li := range n.adj[a] {
		l := n.links[li]
		if (l.a == a && l.b == b) || (l.a == b && l.b == a) {
			return // no parallel links
		}
	}
	pa, pb := n.nodes[a], n.nodes[b]
	line := geom.LineString{pa}
	for k := 1; k <= bends; k++ {
		t := float64(k) / float64(bends+1)
		dx, dy := pb.X-pa.X, pb.Y-pa.Y
		off := r.Range(-1, 1) * stretch
		line = append(line, geom.Point{X: pa.X + t*dx - off*dy, Y: pa.Y + t*dy + off*dx})
	}
	line = append(line, pb)
	if r.Bool() { // random orientation
		for i, j := 0, len(line)-1; i < j; i, j = i+1, j-1 {
			line[i], line[j] = line[j], line[i]
		}
	}
	length := 0.0
	for i := 0; i+1 < len(line); i++ {
		length += math.Hypot(line[i+1].X-line[i].X, line[i+1].Y-line[i].Y)
	}
	n.links = append(n.links, link{a: a, b: b, line: line, length: length, speed: speed, time: length / speed})
	if n.adj == nil {
		n.adj = map[int][]int{}
	}
	n.adj[a] = append(n.adj[a], len(n.links)-1)
	n.adj[b] = append(n.adj[b], len(n.links)-1)
}

type pqItem struct {
	node int
	cost float64
}
type pq []pqItem

func (p pq) Len() int            { return len(p) }
func (p pq) Less(i, j int) bool  { return p[i].cost < p[j].cost }
func (p pq) Swap(i, j int)       { p[i], p[j] = p[j], p[i] }
func (p *pq) Push(x interface{}) { *p = append(*p, x.(pqItem)) }
func (p *pq) Pop() interface{} {
	o := *p
	x := o[len(o)-1]
	*p = o[:len(o)-1]
	return x
}

// dijkstra returns the optimal cost from s to t (+Inf if unreachable) for the given weight.
func (n *netw) dijkstra(s, t int, w func(l *link) float64) float64 {
	dist := map[int]float64{s: 0}
	done := map[int]bool{}
	h := &pq{{s, 0}}
	for h.Len() > 0 {
		it := heap.Pop(h).(pqItem)
		if done[it.node] {
			continue
		}
		done[it.node] = true
		if it.node == t {
			return it.cost
		}
		for _, li := range n.adj[it.node] {
			l := &n.links[li]
			o := l.a
			if o == it.node {
				o = l.b
			}
			c := it.cost + w(l)
			if d, ok := dist[o]; !ok || c < d {
				dist[o] = c
				heap.Push(h, pqItem{o, c})
			}
		}
	}
	return math.Inf(1)
}

func genNetwork(c *core.Ctx, r *gen.R) (*netw, string) {
	n := &netw{adj: map[int][]int{}}
	topo := []string{"grid", "grid", "tree", "two_components", "detour", "detour", "fastfar", "near_tie_lattice"}[r.Intn(8)]
	cell := math.Pow(10, r.Range(0, 4))
	if r.Chance(0.06) {
		// so large that the square of a coordinate difference overflows (lengths and costs do not)
		cell = math.Pow(10, r.Range(155, 290))
		c.Count("net.cell_beyond_1e155")
	}
	ox, oy := cell*r.Range(5, 50), cell*r.Range(5, 50) // positive coordinates
	maxSide := 8
	if c.Thorough() && r.Chance(0.1) {
		maxSide = 17
	}
	// speeds over four decades, also below 1 (km/s, degrees/s); in a sixth of the networks every
	// link has the same speed
	uniform := 0.0
	if r.Chance(0.17) {
		uniform = math.Pow(10, r.Range(-2, 2))
		c.Count("speeds.all_equal")
		if uniform < 1 {
			c.Count("speeds.all_equal_below_1")
		}
	}
	speed := func() float64 {
		if uniform > 0 {
			return uniform
		}
		return math.Pow(10, r.Range(-2, 2))
	}
	bends := func() int { return r.Intn(5) }
	grid := func(w, h int, x0, y0 float64) []int {
		ids := make([]int, 0, w*h)
		for j := 0; j < h; j++ {
			for i := 0; i < w; i++ {
				n.nodes = append(n.nodes, geom.Point{X: x0 + cell*(float64(i)+r.Range(-0.2, 0.2)), Y: y0 + cell*(float64(j)+r.Range(-0.2, 0.2))})
				ids = append(ids, len(n.nodes)-1)
			}
		}
		return ids
	}
	switch topo {
	case "near_tie_lattice":
		// an almost regular lattice of straight links at one speed: very many alternative chains
		// whose costs differ by a relative 1e-6 .. 1e-3 (never exactly equal), and a straight-line
		// estimate that is nearly tight - the situation in which a search that is only
		// approximately admissible or that stops at the first arrival returns the second best
		w, h := r.IntRange(3, 10), r.IntRange(3, 10)
		jit := math.Pow(10, r.Range(-5, -2))
		sp := speed()
		var ids []int
		for j := 0; j < h; j++ {
			for i := 0; i < w; i++ {
				n.nodes = append(n.nodes, geom.Point{X: ox + cell*(float64(i)+r.Range(-1, 1)*jit), Y: oy + cell*(float64(j)+r.Range(-1, 1)*jit)})
				ids = append(ids, len(n.nodes)-1)
			}
		}
		type pair struct{ a, b int }
		var cand []pair
		for j := 0; j < h; j++ {
			for i := 0; i < w; i++ {
				if i+1 < w {
					cand = append(cand, pair{ids[j*w+i], ids[j*w+i+1]})
				}
				if j+1 < h {
					cand = append(cand, pair{ids[j*w+i], ids[(j+1)*w+i]})
				}
				if i+1 < w && j+1 < h && r.Chance(0.5) {
					cand = append(cand, pair{ids[j*w+i], ids[(j+1)*w+i+1]})
				}
			}
		}
		for _, k := range r.Perm(len(cand)) {
			if r.Chance(0.95) {
				n.addLink(r, cand[k].a, cand[k].b, sp, 0, 0)
			}
		}
	case "grid", "two_components":
		w, h := r.IntRange(2, maxSide), r.IntRange(1, maxSide)
		ids := grid(w, h, ox, oy)
		type pair struct{ a, b int }
		var cand []pair
		for j := 0; j < h; j++ {
			for i := 0; i < w; i++ {
				if i+1 < w {
					cand = append(cand, pair{ids[j*w+i], ids[j*w+i+1]})
				}
				if j+1 < h {
					cand = append(cand, pair{ids[j*w+i], ids[(j+1)*w+i]})
				}
				if i+1 < w && j+1 < h && r.Chance(0.3) {
					cand = append(cand, pair{ids[j*w+i], ids[(j+1)*w+i+1]})
				}
			}
		}
		if topo == "two_components" {
			ids2 := grid(r.IntRange(1, 4), r.IntRange(1, 3), ox+cell*float64(w+3), oy)
			for i := 0; i+1 < len(ids2); i++ {
				cand = append(cand, pair{ids2[i], ids2[i+1]})
			}
		}
		for _, k := range r.Perm(len(cand)) {
			if r.Chance(0.85) {
				n.addLink(r, cand[k].a, cand[k].b, speed(), bends(), 0.25)
			}
		}
	case "tree":
		cnt := r.IntRange(2, maxSide*4)
		side := int(math.Ceil(math.Sqrt(float64(cnt))))
		ids := grid(side, side, ox, oy)[:cnt]
		n.nodes = n.nodes[:cnt]
		for i := 1; i < cnt; i++ {
			n.addLink(r, ids[i], ids[r.Intn(i)], speed(), bends(), 0.15)
		}
	case "detour":
		// a short chain A - M1 - … - Mk - B with several expensive links against one direct (or two-link) alternative
		k := r.IntRange(1, 6)
		ids := grid(k+2, 2, ox, oy)
		for i := 0; i+1 < k+2; i++ {
			n.addLink(r, ids[i], ids[i+1], speed(), bends(), 0.1)
		}
		// the alternative via the second row: fewer links
		n.addLink(r, ids[0], ids[k+2], speed(), 0, 0)
		n.addLink(r, ids[k+2], ids[k+1], speed(), bends(), 0.4)
		if r.Bool() {
			n.addLink(r, ids[0], ids[k+1], speed(), 4, 0.45) // one long bendy direct link
		}
	case "fastfar":
		// a slow direct road and a fast ring road
		ids := grid(4, 3, ox, oy)
		slow, fast := r.Range(1, 3), r.Range(30, 100)
		for i := 0; i < 3; i++ {
			n.addLink(r, ids[i], ids[i+1], slow, bends(), 0.1)
		}
		n.addLink(r, ids[0], ids[4], fast, 0, 0)
		n.addLink(r, ids[4], ids[8], fast, 0, 0)
		n.addLink(r, ids[8], ids[9], fast, 0, 0)
		n.addLink(r, ids[9], ids[10], fast, 0, 0)
		n.addLink(r, ids[10], ids[11], fast, 0, 0)
		n.addLink(r, ids[11], ids[7], fast, 0, 0)
		n.addLink(r, ids[7], ids[3], fast, 0, 0)
		topo = "detour"
	}
	return n, topo
}

// genLarge builds one jittered grid network of 50 000 - 110 000 nodes (sizes at which
// anything keyed by a 32-bit quantity starts to collide).
func genLarge(c *core.Ctx, r *gen.R) (*netw, string) {
	n := &netw{adj: map[int][]int{}}
	cell := math.Pow(10, r.Range(-3, 2))
	ox, oy := cell*r.Range(5, 50), cell*r.Range(5, 50)
	if r.Bool() {
		ox, oy = -93.3+r.Range(-1, 1), 44.9+r.Range(-1, 1) // a lon/lat window
		cell = 1e-4 * r.Range(0.5, 2)
	}
	w, h := r.IntRange(230, 330), r.IntRange(230, 330)
	for j := 0; j < h; j++ {
		for i := 0; i < w; i++ {
			n.nodes = append(n.nodes, geom.Point{X: ox + cell*(float64(i)+r.Range(-0.3, 0.3)), Y: oy + cell*(float64(j)+r.Range(-0.3, 0.3))})
		}
	}
	for j := 0; j < h; j++ {
		for i := 0; i < w; i++ {
			if i+1 < w && r.Chance(0.9) {
				n.addLink(r, j*w+i, j*w+i+1, math.Pow(10, r.Range(0, 1)), 0, 0)
			}
			if j+1 < h && r.Chance(0.9) {
				n.addLink(r, j*w+i, (j+1)*w+i, math.Pow(10, r.Range(0, 1)), 0, 0)
			}
		}
	}
	c.Count("large.networks")
	c.Add("large.nodes", int64(len(n.nodes)))
	return n, "large_grid"
}

// runOverflow: chains of one to three links between connected nodes whose cost is no float64:
// a link of ordinary length with a subnormal (positive) speed takes +Inf time, two links of
// 1e308 are +Inf long together. Every chain between the two nodes then costs +Inf, every one of
// them is minimal, and the route must still be a chain between the two nodes. All violations of
// this phase go under ONE key: it exhibits a recorded limitation (known_findings.json).
func runOverflow(c *core.Ctx) {
	r := c.R
	n := r.IntRange(1, 3)
	opt, optName := route.Distance, "Distance"
	H := r.Range(0.95e308, 1.7e308)
	speeds := make([]float64, n)
	for i := range speeds {
		speeds[i] = r.Range(1, 100)
	}
	if r.Bool() {
		opt, optName = route.Time, "Time"
		H = math.Pow(10, r.Range(0, 6))
		// one link takes +Inf hours
		speeds[r.Intn(n)] = math.Float64frombits(uint64(r.IntRange(1, 1<<20)))
	} else {
		// two links at a right angle: every distance between two nodes is still a float64
		// (with three, the ends are more than 1.8e308 apart and AddLink cannot tell nodes apart)
		n = 2
		speeds = []float64{r.Range(1, 100), r.Range(1, 100)}
	}
	// nodes along a line, or along a right-angled path
	pts := []geom.Point{{X: -H / 2, Y: 0}}
	step := H / 2
	if optName == "Distance" {
		step = r.Range(0.95e308, 1.2e308) // two steps are +Inf together
		pts[0].X = -0.7 * step
	}
	for i := 0; i < n; i++ {
		p := pts[len(pts)-1]
		if i%2 == 0 {
			p.X += step
		} else {
			p.Y += step
		}
		pts = append(pts, p)
	}
	net := route.NewNetwork(opt)
	var links []interface{}
	total := 0.0
	for i := 0; i < n; i++ {
		ls := geom.LineString{pts[i], pts[i+1]}
		net.AddLink(ls, speeds[i])
		links = append(links, map[string]interface{}{"line": gen.Dump(ls), "speed": speeds[i]})
		if optName == "Distance" {
			total += step
		} else {
			total += step / speeds[i]
		}
	}
	if !math.IsInf(total, 1) {
		return
	}
	c.Count("overflow.cases")
	c.Count("overflow." + optName)
	detail := map[string]interface{}{"minimise": optName, "links_in_insertion_order": links, "from": []float64{pts[0].X, pts[0].Y}, "to": []float64{pts[n].X, pts[n].Y}}
	c.Eval()
	c.Guard("ShortestRoute", detail, func() {
		rt, _, _, _, _ := net.ShortestRoute(pts[0], pts[n])
		if len(rt) != n {
			c.Violate("connected-but-no-route:cost-is-not-a-float64", fmt.Sprintf("minimising %s: the two nodes are joined by a chain of %d links whose cost is +Inf in float64; ShortestRoute returned %d links", optName, n, len(rt)), detail)
		} else {
			c.Count("overflow.route_returned")
		}
	})
}

func run(c *core.Ctx, idx int) {
	if c.Phase == "unrepresentable_cost" {
		runOverflow(c)
		return
	}
	r := c.R
	var nw *netw
	var topo string
	if c.Phase == "large" {
		nw, topo = genLarge(c, r)
	} else {
		nw, topo = genNetwork(c, r)
	}
	if len(nw.links) == 0 {
		return
	}
	c.Count("topology." + topo)
	opt := route.Distance
	optName := "Distance"
	if r.Bool() {
		opt, optName = route.Time, "Time"
	}
	c.Count("minimise." + optName)
	weight := func(l *link) float64 {
		if optName == "Time" {
			return l.time
		}
		return l.length
	}
	h := core.NewHasher().Str(optName)
	for _, l := range nw.links {
		gen.HashGeom(h, l.line)
		h.F64(l.speed)
	}
	netDesc := func() map[string]interface{} {
		ls := make([]interface{}, 0, len(nw.links))
		for i, l := range nw.links {
			if i >= 80 {
				ls = append(ls, fmt.Sprintf("… %d more links", len(nw.links)-80))
				break
			}
			ls = append(ls, map[string]interface{}{"from_node": l.a, "to_node": l.b, "line": gen.Dump(l.line), "speed": l.speed, "length": l.length})
		}
		return map[string]interface{}{"minimise": optName, "topology": topo, "links_in_insertion_order": ls}
	}
	// insertion order: as generated (random), or sorted by speed (the fastest / slowest link
	// first matters for anything the network accumulates while links are added)
	order := r.Intn(5)
	if len(nw.links) > 5000 {
		order = 4
	}
	switch order {
	case 0:
		sortLinks(nw, func(a, b *link) bool { return a.speed > b.speed })
		c.Count("order.fastest_first")
	case 1:
		sortLinks(nw, func(a, b *link) bool { return a.speed < b.speed })
		c.Count("order.slowest_first")
	}
	// stages: all links at once, or (incremental) a few batches with queries after each batch, so
	// that later AddLink calls (new nodes, and links between nodes that already exist) act on a
	// network that has already answered queries
	full := nw
	cuts := []int{len(full.links)}
	if len(full.links) >= 3 && r.Chance(0.4) {
		k := r.IntRange(1, 3)
		seen := map[int]bool{}
		for i := 0; i < k; i++ {
			seen[r.IntRange(1, len(full.links)-1)] = true
		}
		cuts = cuts[:0]
		for i := 1; i < len(full.links); i++ {
			if seen[i] {
				cuts = append(cuts, i)
			}
		}
		cuts = append(cuts, len(full.links))
		c.Count("order.incremental_queries_between_addlinks")
	}
	if c.WantSample() && len(full.links) >= 4 && len(full.links) <= 12 {
		c.Sample(netDesc())
	}
	net := route.NewNetwork(opt)
	lo := 0
	for si, hi := range cuts {
		if c.Guard("AddLink", netDesc(), func() {
			for _, l := range full.links[lo:hi] {
				net.AddLink(l.line, l.speed)
			}
		}) {
			return
		}
		if si > 0 {
			nodesBefore := map[int]bool{}
			for _, l := range full.links[:lo] {
				nodesBefore[l.a], nodesBefore[l.b] = true, true
			}
			for _, l := range full.links[lo:hi] {
				if nodesBefore[l.a] && nodesBefore[l.b] {
					c.Count("incremental.link_between_existing_nodes_after_query")
				}
			}
		}
		lo = hi
		view := &netw{nodes: full.nodes, links: full.links[:hi], adj: map[int][]int{}}
		for i, l := range view.links {
			view.adj[l.a] = append(view.adj[l.a], i)
			view.adj[l.b] = append(view.adj[l.b], i)
		}
		nq := 8
		if len(cuts) > 1 {
			nq = 4
		}
		if !runQueries(c, r, net, view, nq, hi, optName, weight, netDesc, h.Sum()) {
			return
		}
	}
}

// runQueries judges nq random queries against the links added so far (nw is the
// view of exactly those links). It returns false when the worker should stop
// with this network.
func runQueries(c *core.Ctx, r *gen.R, net *route.Network, nw *netw, nq, added int, optName string, weight func(l *link) float64, netDesc func() map[string]interface{}, netHash uint64) bool {
	hops := func(l *link) float64 { return 1 }
	used := map[int]bool{}
	for _, l := range nw.links {
		used[l.a], used[l.b] = true, true
	}
	var usedIDs []int
	for i := range nw.nodes {
		if used[i] {
			usedIDs = append(usedIDs, i)
		}
	}
	byData := map[*geom.Point]int{}
	for i := range nw.links {
		byData[&nw.links[i].line[0]] = i
	}
	nearest := func(p geom.Point) (int, bool) {
		best, bd, second := -1, math.Inf(1), math.Inf(1)
		for _, i := range usedIDs {
			d := math.Hypot(nw.nodes[i].X-p.X, nw.nodes[i].Y-p.Y)
			if d < bd {
				best, second, bd = i, bd, d
			} else if d < second {
				second = d
			}
		}
		return best, second-bd > 1e-9*(second+bd)
	}
	for q := 0; q < nq; q++ {
		var from, to geom.Point
		pick := func() geom.Point {
			if r.Bool() {
				c.Count("query.on_node")
				return nw.nodes[usedIDs[r.Intn(len(usedIDs))]]
			}
			b := nw.nodes[usedIDs[r.Intn(len(usedIDs))]]
			s := math.Hypot(nw.nodes[usedIDs[0]].X-nw.nodes[usedIDs[len(usedIDs)-1]].X, nw.nodes[usedIDs[0]].Y-nw.nodes[usedIDs[len(usedIDs)-1]].Y) + 1
			return geom.Point{X: b.X + r.Range(-0.6, 0.6)*s/4, Y: b.Y + r.Range(-0.6, 0.6)*s/4}
		}
		from, to = pick(), pick()
		if r.Chance(0.1) && len(nw.links) > 0 {
			// two query points that are almost the same point (a relative 1e-12 .. 1e-6 of their
			// coordinates apart) on either side of the bisector between the end nodes of a link
			l := nw.links[r.Intn(len(nw.links))]
			a, b := nw.nodes[l.a], nw.nodes[l.b]
			mx, my := (a.X+b.X)/2, (a.Y+b.Y)/2
			dx, dy := b.X-a.X, b.Y-a.Y
			d := math.Hypot(dx, dy)
			eps := math.Max(math.Abs(mx), math.Abs(my)) * math.Pow(10, r.Range(-12, -6))
			from = geom.Point{X: mx - eps*dx/d, Y: my - eps*dy/d}
			to = geom.Point{X: mx + eps*dx/d, Y: my + eps*dy/d}
			c.Count("query.nearly_equal_points_across_a_bisector")
		}
		s, ok1 := nearest(from)
		t, ok2 := nearest(to)
		if !ok1 || !ok2 {
			c.Count("query.skipped_ambiguous_nearest")
			continue
		}
		c.Eval()
		want := nw.dijkstra(s, t, weight)
		detail := netDesc()
		detail["links_added_so_far"] = added
		detail["from"], detail["to"] = []float64{from.X, from.Y}, []float64{to.X, to.Y}
		detail["start_node"], detail["end_node"], detail["optimal_cost"] = s, t, fmt.Sprint(want)
		var rt geom.MultiLineString
		var dist, tm, sd, ed float64
		if c.Guard("ShortestRoute", detail, func() { rt, dist, tm, sd, ed = net.ShortestRoute(from, to) }) {
			return false
		}
		// start / end distances identify the nearest nodes
		wsd := math.Hypot(nw.nodes[s].X-from.X, nw.nodes[s].Y-from.Y)
		wed := math.Hypot(nw.nodes[t].X-to.X, nw.nodes[t].Y-to.Y)
		if math.Abs(sd-wsd) > 1e-9*(wsd+1e-300)+1e-12*math.Abs(from.X) || math.Abs(ed-wed) > 1e-9*(wed+1e-300)+1e-12*math.Abs(to.X) {
			c.Violate("nearest-node", fmt.Sprintf("start/end distance (%v, %v) differ from the distances to the true nearest nodes (%v, %v)", sd, ed, wsd, wed), detail)
			continue
		}
		switch {
		case s == t:
			c.Count("query.same_node")
			if len(rt) != 0 {
				c.Violate("same-node-nonempty", fmt.Sprintf("start and end node coincide but the route has %d links", len(rt)), detail)
			}
			continue
		case math.IsInf(want, 1):
			c.Count("query.disconnected")
			if len(rt) != 0 {
				c.Violate("disconnected-nonempty", fmt.Sprintf("nodes %d and %d are not connected but a route of %d links was returned", s, t, len(rt)), detail)
			}
			continue
		}
		c.Count("query.connected")
		fewest := nw.dijkstra(s, t, hops)
		// chain and totals
		cur := s
		var sumD, sumT float64
		broken := ""
		for i, seg := range rt {
			if len(seg) == 0 {
				broken = fmt.Sprintf("link %d of the route is empty", i)
				break
			}
			li, ok := byData[&seg[0]]
			if !ok {
				broken = fmt.Sprintf("link %d of the route is not one of the network's links", i)
				break
			}
			l := &nw.links[li]
			switch cur {
			case l.a:
				cur = l.b
			case l.b:
				cur = l.a
			default:
				broken = fmt.Sprintf("link %d (nodes %d-%d) does not continue the chain at node %d", i, l.a, l.b, cur)
			}
			if broken != "" {
				break
			}
			sumD += l.length
			sumT += l.time
		}
		if broken == "" && cur != t {
			broken = fmt.Sprintf("the chain ends at node %d, the end node is %d", cur, t)
		}
		if len(rt) == 0 {
			broken = "empty route between connected nodes"
		}
		if broken != "" {
			c.Violate("chain", "returned links do not form a chain from the start node to the end node: "+broken, detail)
			continue
		}
		if math.Abs(dist-sumD) > 1e-12*sumD || math.Abs(tm-sumT) > 1e-12*sumT {
			c.Violate("totals", fmt.Sprintf("reported distance/time (%v, %v) differ from the sums over the returned links (%v, %v)", dist, tm, sumD, sumT), detail)
			continue
		}
		got := sumD
		if optName == "Time" {
			got = sumT
		}
		optimalHops := float64(len(rt)) == fewest
		if want < got*(1-1e-9) {
			kind := "fewest-links-route"
			if !optimalHops {
				kind = "other-route"
			}
			detail["returned_cost"] = got
			c.Violate("suboptimal:"+optName+":"+kind, fmt.Sprintf("minimising %s: returned route costs %v over %d links, the optimum is %v", optName, got, len(rt), want), detail)
			continue
		}
		if got < want*(1-1e-9) {
			c.Violate("oracle-disagreement", fmt.Sprintf("returned route is cheaper (%v) than the harness optimum (%v)", got, want), detail)
			continue
		}
		// non-trivial: the optimum is not (one of) the fewest-links routes by cost
		if len(rt) >= 2 && float64(len(rt)) > fewest {
			c.Count("query.optimal_differs_from_fewest_links")
			c.Nontrivial(core.NewHasher().U64(netHash).Int(added).Int(s).Int(t).Sum())
		}
	}
	return true
}

// sortLinks reorders the links (and rebuilds the adjacency index).
func sortLinks(n *netw, less func(a, b *link) bool) {
	ls := n.links
	for i := 1; i < len(ls); i++ {
		for j := i; j > 0 && less(&ls[j], &ls[j-1]); j-- {
			ls[j], ls[j-1] = ls[j-1], ls[j]
		}
	}
	n.adj = map[int][]int{}
	for i, l := range ls {
		n.adj[l.a] = append(n.adj[l.a], i)
		n.adj[l.b] = append(n.adj[l.b], i)
	}
}
