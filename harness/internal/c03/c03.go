// Package c03 monitors property C03: area, centroid, length, distance and
// buffer are the true measures of the shape.
package c03

import (
	"fmt"
	"math"
	"math/big"

	"github.com/ctessum/geom"
	"github.com/ctessum/geom/op"

	"verifharness/internal/core"
	"verifharness/internal/exact"
	"verifharness/internal/gen"
)

func init() {
	core.Register(&core.Prop{
		ID: "C03",
		Rule: "polygon phase (a quarter of the lattice spellings are repeated translated by 2^20..2^30, where the area is still exactly representable; 30% of the spellings are handed over with rings laid out as consecutive sub-slices of one backing array): case = one valid lattice polygon (star-shaped or rectilinear integer shell, 0-4 lattice holes in disjoint cells strictly inside) or multi-polygon of 1-3 disjoint members, explored over its spelling orbit (every subset of rings reversed for <= 3 rings, sampled above; random rotation of each ring's start vertex; closed/unclosed spelling per ring) and a float image under a random similarity transform; Area/Centroid (geom and op) compared with exact rational shoelace measures (== on the integer grid, 1e-10 relative on floats); " +
			"extreme_magnitude phase: the same lattice polygons and multi-polygons (closed rings, shell and holes oppositely oriented, all rings reversed together in half of the cases, random start vertices) multiplied by 2^k, k in -1000..-300 and 300..1010 (exact), a fifth of them also translated by up to 2^6 sizes: Polygon.Centroid, MultiPolygon.Centroid and op.Centroid compared with the exact rational centroid scaled by 2^k, to 1e-10 of the extent, and required to lie in the bounding box; " +
			"line phase: random and integer line strings (repeated vertices included) with query points on the line, beyond its ends and at random: Length, Distance vs 200-bit references; Point.Buffer vs the regular n-gon; " +
			"an evaluation is one measured call; non-trivial = shape with a hole or a reversed/rotated spelling whose measure was compared; distinct by spelling hash",
		Assumptions: []string{"Polygon.Centroid / op.Centroid / op.Area are exercised only under their documented preconditions (closed rings, shell and holes oppositely oriented), as the property states", "polygon coordinates are drawn between 1e-3 and 1e7 in magnitude, lattice shapes also translated by 2^20..2^50 (areas are sums of products of two coordinates and are not asked for beyond 1e150, where the area itself leaves the float64 range; centroids are judged at every magnitude from 2^-1000 to 2^1010 in the extreme_magnitude phase); line strings also at 1e155..1e160 and 1e-160..1e-155", "float images up to 10 x size away are judged to 1e-10; images 10^2..10^6 x size away to 1e-10 + 1e-14 x (offset/size), the accuracy of a sum over coordinate differences"},
		Phases: []core.Phase{
			{Name: "polygon", NumCases: func(t string) int {
				if t == "thorough" {
					return 150000
				}
				return 4000
			}},
			{Name: "extreme_magnitude", NumCases: func(t string) int {
				if t == "thorough" {
					return 200000
				}
				return 6000
			}},
			{Name: "line", NumCases: func(t string) int {
				if t == "thorough" {
					return 600000
				}
				return 20000
			}},
		},
		Run: run,
		Floors: func(t string) map[string]int64 {
			return map[string]int64{"orbit.reversed_single_ring": 1000, "orbit.unclosed": 1000, "orbit.all_reversed": 500, "orbit.rings_in_another_order": 500, "shape.with_holes": 500, "shape.hole_inside_the_box_of_another_hole": 150, "shape.every_shell_vertex_touched_by_a_hole": 60, "shape.multipolygon": 300,
				"centroid.MultiPolygon": 1000, "centroid.Polygon": 500, "area.exact_equal": 5000, "area.float": 1000, "op.area": 500, "op.centroid": 500,
				"distance.on_line": 500, "distance.beyond_end": 500, "distance.zero_length_segment": 200, "buffer": 500, "length": 1000, "line.long": 300, "storage.rings_share_one_backing_array": 1000, "area.again_after_centroid_of_unclosed_spelling": 1000, "shape.far_from_origin": 1000, "shape.float_far_from_origin": 500, "shape.island_in_a_hole_of_another_member": 100, "line.very_long": 100, "line.extreme_magnitude": 200, "extreme.centroid_judged": 5000, "extreme.beyond_1e103": 1000, "extreme.below_1e-108": 1000, "extreme.with_holes": 500, "extreme.multipolygon": 500, "extreme.far_from_origin_as_well": 300}
		},
	})
}

func run(c *core.Ctx, idx int) {
	if c.Phase == "polygon" {
		runPolygon(c)
	} else if c.Phase == "extreme_magnitude" {
		runExtreme(c)
	} else {
		runLine(c)
	}
}

// base is a valid polygon in canonical spelling: ring 0 the shell (ccw),
// the others holes (ccw as generated), all open (no closing vertex).
type base struct {
	rings       []geom.Path
	notched     bool // two holes, one inside the other's bounding box
	cornerHoles bool // every vertex of the shell is also a vertex of a hole
}

func rect(x0, y0, x1, y1 float64) geom.Path {
	return geom.Path{{X: x0, Y: y0}, {X: x1, Y: y0}, {X: x1, Y: y1}, {X: x0, Y: y1}}
}

func genBase(r *gen.R, ox float64) base {
	var b base
	if r.Chance(0.06) {
		// a triangular shell with a small hole tucked into each corner, touching the shell at that
		// vertex only (valid: a hole may touch the shell at a point): every vertex of the shell then
		// lies on another ring
		k := float64(r.IntRange(1, 2))
		a, bb, cc := geom.Point{X: ox - 30, Y: -30}, geom.Point{X: ox + 30, Y: -30}, geom.Point{X: ox, Y: 30}
		b.rings = []geom.Path{{a, bb, cc},
			{a, {X: a.X + 6*k, Y: a.Y + 1*k}, {X: a.X + 3*k, Y: a.Y + 5*k}},
			{bb, {X: bb.X - 3*k, Y: bb.Y + 5*k}, {X: bb.X - 6*k, Y: bb.Y + 1*k}},
			{cc, {X: cc.X - 2*k, Y: cc.Y - 6*k}, {X: cc.X + 2*k, Y: cc.Y - 6*k}}}
		if r.Chance(0.3) {
			b.rings = b.rings[:3] // one corner left free (the case that has always worked)
		}
		b.cornerHoles = len(b.rings) == 4
		return b
	}
	var s float64 // half-side of a square known to lie strictly inside the shell, centred at (ox,0)
	if r.Bool() {
		for {
			ring, inr := gen.Star(r, ox, 0, 24, 50, r.IntRange(3, 14), 1)
			if inr >= 14 {
				b.rings = append(b.rings, ring)
				s = math.Floor(inr*0.7) - 1
				break
			}
		}
	} else {
		// rectilinear staircase shell on integers: frame [-40,40] x [-40, top(x)] with top >= 20
		ring := geom.Path{{X: ox - 40, Y: -40}, {X: ox + 40, Y: -40}}
		cols := r.IntRange(1, 6)
		w := 80 / cols
		prev := math.NaN()
		for i := cols - 1; i >= 0; i-- {
			ht := float64(r.IntRange(20, 45))
			if ht == prev {
				ht++
			}
			xr := ox - 40 + float64((i+1)*w)
			if i == cols-1 {
				xr = ox + 40
			}
			xl := ox - 40 + float64(i*w)
			ring = append(ring, geom.Point{X: xr, Y: ht}, geom.Point{X: xl, Y: ht})
			prev = ht
		}
		b.rings = append(b.rings, ring)
		s = 18
	}
	nh := r.Intn(5)
	if r.Chance(0.3) {
		nh = 0
	}
	if s >= 6 && r.Chance(0.2) {
		// two disjoint holes of which the smaller lies inside the bounding box of the larger
		// one without lying inside it: a C- or L-shaped hole and a hole in its notch
		b.rings = append(b.rings, notchedHoles(r, ox, s)...)
		b.notched = true
		return b
	}
	// 2x2 cells inside [-s,s]^2
	cells := r.Perm(4)
	for k := 0; k < nh; k++ {
		cx := ox + (float64(cells[k]%2)-0.5)*s
		cy := (float64(cells[k]/2) - 0.5) * s
		half := math.Floor(s/2) - 1
		if half < 2 {
			break
		}
		var hole geom.Path
		if r.Bool() {
			hw, hh := float64(r.IntRange(1, int(half))), float64(r.IntRange(1, int(half)))
			hole = rect(math.Round(cx)-hw, math.Round(cy)-hh, math.Round(cx)+hw, math.Round(cy)+hh)
		} else {
			for {
				var inr float64
				hole, inr = gen.Star(r, math.Round(cx), math.Round(cy), half*0.4, half, r.IntRange(3, 7), 1)
				if inr > 0 {
					break
				}
			}
		}
		b.rings = append(b.rings, hole)
	}
	return b
}

// notchedHoles returns a rectilinear C- or L-shaped hole inside [-s+1,s-1]^2 (centred at
// (ox,0), in one of the eight axis orientations) and a small hole placed in its notch,
// strictly inside the bounding box of the first and strictly disjoint from it. Both ccw.
func notchedHoles(r *gen.R, ox, s float64) []geom.Path {
	a, bb := float64(r.IntRange(4, int(s)-1)), float64(r.IntRange(4, int(s)-1))
	x0, x1, y0, y1 := -a, a, -bb, bb
	xn := float64(r.IntRange(int(x0)+1, int(x1)-3))
	var big geom.Path
	var nx0, nx1, ny0, ny1 float64 // the open notch
	if r.Bool() {
		yn0 := float64(r.IntRange(int(y0)+1, int(y1)-4))
		yn1 := float64(r.IntRange(int(yn0)+3, int(y1)-1))
		big = geom.Path{{X: x0, Y: y0}, {X: x1, Y: y0}, {X: x1, Y: yn0}, {X: xn, Y: yn0}, {X: xn, Y: yn1}, {X: x1, Y: yn1}, {X: x1, Y: y1}, {X: x0, Y: y1}}
		nx0, nx1, ny0, ny1 = xn, x1, yn0, yn1
	} else {
		ym := float64(r.IntRange(int(y0)+1, int(y1)-3))
		big = geom.Path{{X: x0, Y: y0}, {X: x1, Y: y0}, {X: x1, Y: ym}, {X: xn, Y: ym}, {X: xn, Y: y1}, {X: x0, Y: y1}}
		nx0, nx1, ny0, ny1 = xn, x1, ym, y1
	}
	hx0, hy0 := nx0+0.5, ny0+0.5
	hx1 := hx0 + 0.5*float64(r.IntRange(1, int(2*(nx1-0.5-hx0))))
	hy1 := hy0 + 0.5*float64(r.IntRange(1, int(2*(ny1-0.5-hy0))))
	small := rect(hx0, hy0, hx1, hy1)
	if r.Chance(0.3) {
		small = small[:3]
	}
	m := r.Intn(8)
	out := []geom.Path{big, small}
	for _, ring := range out {
		for i, p := range ring {
			x, y := p.X, p.Y
			if m&1 != 0 {
				x = -x
			}
			if m&2 != 0 {
				y = -y
			}
			if m&4 != 0 {
				x, y = y, x
			}
			ring[i] = geom.Point{X: ox + x, Y: y}
		}
		var a2 float64
		for i := range ring {
			j := (i + 1) % len(ring)
			a2 += ring[i].X*ring[j].Y - ring[j].X*ring[i].Y
		}
		if a2 < 0 {
			for i, j := 0, len(ring)-1; i < j; i, j = i+1, j-1 {
				ring[i], ring[j] = ring[j], ring[i]
			}
		}
	}
	if r.Bool() {
		out[0], out[1] = out[1], out[0]
	}
	return out
}

// exact measures of a canonical base: area and centroid as rationals.
func (b base) measures() (area, cx, cy *big.Rat) {
	area, mx, my := new(big.Rat), new(big.Rat), new(big.Rat)
	for i, ring := range b.rings {
		a2, m1, m2 := exact.RingMoments(gen.EPath(ring))
		if a2.Sign() < 0 {
			a2.Neg(a2)
			m1.Neg(m1)
			m2.Neg(m2)
		}
		if i == 0 {
			area.Add(area, a2)
			mx.Add(mx, m1)
			my.Add(my, m2)
		} else {
			area.Sub(area, a2)
			mx.Sub(mx, m1)
			my.Sub(my, m2)
		}
	}
	// area currently 2A; moments are 6*A*c
	cx = new(big.Rat).Quo(mx, new(big.Rat).Mul(big.NewRat(3, 1), area))
	cy = new(big.Rat).Quo(my, new(big.Rat).Mul(big.NewRat(3, 1), area))
	area = new(big.Rat).Quo(area, big.NewRat(2, 1))
	return
}

type spelling struct {
	rev    []bool
	rot    []int
	closed []bool
}

func (b base) spell(sp spelling) geom.Polygon {
	pg := make(geom.Polygon, len(b.rings))
	for i, ring := range b.rings {
		pg[i] = gen.Respell(nil, ring, sp.rev[i], sp.rot[i]%len(ring), sp.closed[i])
	}
	return pg
}

// oppositely reports whether shell and holes are oppositely oriented in this spelling
// (base rings are all ccw, so: holes reversed relative to the shell).
func (sp spelling) alternating() bool {
	for i := 1; i < len(sp.rev); i++ {
		if sp.rev[i] == sp.rev[0] {
			return false
		}
	}
	return true
}

func (sp spelling) allClosed() bool {
	for _, c := range sp.closed {
		if !c {
			return false
		}
	}
	return true
}

func relErr(got, want, scale float64) float64 {
	return math.Abs(got-want) / scale
}

func runPolygon(c *core.Ctx) {
	r := c.R
	nm := 1
	if r.Chance(0.35) {
		nm = r.IntRange(2, 3)
	}
	bases := make([]base, nm)
	totalA, mX, mY := new(big.Rat), new(big.Rat), new(big.Rat)
	nr := 0
	for m := range bases {
		bases[m] = genBase(r, float64(m)*200)
		if bases[m].notched {
			c.Count("shape.hole_inside_the_box_of_another_hole")
		}
		if bases[m].cornerHoles {
			c.Count("shape.every_shell_vertex_touched_by_a_hole")
		}
		a, cx, cy := bases[m].measures()
		totalA.Add(totalA, a)
		mX.Add(mX, new(big.Rat).Mul(a, cx))
		mY.Add(mY, new(big.Rat).Mul(a, cy))
		nr += len(bases[m].rings)
	}
	if r.Chance(0.3) {
		// an island: one more member lying inside a (rectangular) hole of the first member -
		// disjoint from it, but inside its shell
		for _, hole := range bases[0].rings[1:] {
			if len(hole) == 4 && hole[0].Y == hole[1].Y && hole[1].X == hole[2].X && hole[2].Y == hole[3].Y && hole[3].X == hole[0].X &&
				hole[1].X-hole[0].X >= 4 && hole[2].Y-hole[1].Y >= 4 {
				isl := base{rings: []geom.Path{rect(hole[0].X+1, hole[0].Y+1, hole[1].X-1, hole[2].Y-1)}}
				if r.Bool() && hole[1].X-hole[0].X >= 6 && hole[2].Y-hole[1].Y >= 6 {
					isl.rings = append(isl.rings, rect(hole[0].X+2, hole[0].Y+2, hole[1].X-2, hole[2].Y-2)) // with a pond of its own
				}
				a, cx, cy := isl.measures()
				totalA.Add(totalA, a)
				mX.Add(mX, new(big.Rat).Mul(a, cx))
				mY.Add(mY, new(big.Rat).Mul(a, cy))
				nr += len(isl.rings)
				// anywhere in the member list
				k := r.Intn(len(bases) + 1)
				bases = append(bases[:k:k], append([]base{isl}, bases[k:]...)...)
				nm++
				c.Count("shape.island_in_a_hole_of_another_member")
				break
			}
		}
	}
	wantA := exact.F(totalA)
	wantCx := exact.F(new(big.Rat).Quo(mX, totalA))
	wantCy := exact.F(new(big.Rat).Quo(mY, totalA))
	if nr > nm {
		c.Count("shape.with_holes")
	}
	if nm > 1 {
		c.Count("shape.multipolygon")
	}

	// orbit: reversal subsets (complete for <= 3 rings, sampled above) x rotations x closure
	var masks []int
	if nr <= 3 {
		for m := 0; m < 1<<uint(nr); m++ {
			masks = append(masks, m)
		}
	} else {
		masks = []int{0, 1<<uint(nr) - 1}
		for k := 0; k < nr; k++ {
			masks = append(masks, 1<<uint(k)) // single ring reversed
		}
		for k := 0; k < 6; k++ {
			masks = append(masks, r.Intn(1<<uint(nr)))
		}
	}
	for _, mask := range masks {
		for rep := 0; rep < 2; rep++ {
			sps := make([]spelling, nm)
			bit := 0
			anyUnclosed := false
			for m := range bases {
				n := len(bases[m].rings)
				sp := spelling{rev: make([]bool, n), rot: make([]int, n), closed: make([]bool, n)}
				for i := 0; i < n; i++ {
					sp.rev[i] = mask&(1<<uint(bit)) != 0
					bit++
					sp.rot[i] = r.Intn(64)
					sp.closed[i] = rep == 0 || r.Bool()
					if !sp.closed[i] {
						anyUnclosed = true
					}
				}
				sps[m] = sp
			}
			if mask != 0 && mask&(mask-1) == 0 {
				c.Count("orbit.reversed_single_ring")
			}
			if mask == 1<<uint(nr)-1 {
				c.Count("orbit.all_reversed")
			}
			if anyUnclosed {
				c.Count("orbit.unclosed")
			}
			mp := make(geom.MultiPolygon, nm)
			mpS := make(geom.MultiPolygon, nm) // the same members with their rings in another order
			shuffled := false
			for m := range bases {
				mp[m] = bases[m].spell(sps[m])
				mpS[m] = mp[m]
				if len(mp[m]) > 1 && r.Chance(0.3) {
					// the rings in any order (a hole may come before its shell, as in the results of
					// the library's own Difference and Union): the region is the same
					mpS[m] = make(geom.Polygon, len(mp[m]))
					for i, j := range r.Perm(len(mp[m])) {
						mpS[m][i] = mp[m][j]
					}
					shuffled = true
				}
			}
			if shuffled {
				c.Count("orbit.rings_in_another_order")
			}
			checkSpelling(c, mpS, sps, wantA, wantCx, wantCy, 0, 1, "grid", mask)
			if r.Chance(0.25) {
				// the same lattice shape far from the origin (projected map coordinates: a 100-unit
				// shape at 2^20 .. 2^50 - at 2^50 the coordinates still hold quarters): the area is
				// unchanged and still exactly representable, so a formula that multiplies absolute
				// coordinates instead of differences loses it (from about 2^45 on for these shapes)
				e := r.IntRange(20, 50)
				dx, dy := math.Ldexp(1, e)*float64(1-2*r.Intn(2)), math.Ldexp(1, r.IntRange(20, e))*float64(1-2*r.Intn(2))
				far := make(geom.MultiPolygon, nm)
				for m, pg := range mp {
					far[m] = make(geom.Polygon, len(pg))
					for i, ring := range pg {
						far[m][i] = make(geom.Path, len(ring))
						for j, p := range ring {
							far[m][i][j] = geom.Point{X: p.X + dx, Y: p.Y + dy}
						}
					}
				}
				c.Count("shape.far_from_origin")
				checkSpelling(c, far, sps, wantA, wantCx+dx, wantCy+dy, 0, 1, "grid-far-from-origin", mask)
			}
			// float image under a similarity transform
			if rep == 1 {
				sc := math.Pow(10, r.Range(-3, 3))
				th := r.Range(0, 2*math.Pi)
				tx, ty := r.Range(-10, 10)*100*sc, r.Range(-10, 10)*100*sc
				ftol, fkind := 1e-10, "float"
				if r.Chance(0.3) {
					// far from the origin: 10^2 .. 10^6 times the size of the figure away (projected
					// map coordinates). A sum of products of coordinate DIFFERENCES stays accurate to
					// about n * 2^-53 * (offset/size); one of absolute coordinates to its square.
					ratio := math.Pow(10, r.Range(2, 6))
					tx, ty = ratio*100*sc*float64(1-2*r.Intn(2)), ratio*100*sc*r.Range(-1, 1)
					ftol, fkind = 1e-10+1e-14*ratio, "float-far-from-origin"
					c.Count("shape.float_far_from_origin")
				}
				co, si := math.Cos(th), math.Sin(th)
				img := make(geom.MultiPolygon, nm)
				for m, pg := range mp {
					img[m] = make(geom.Polygon, len(pg))
					for i, ring := range pg {
						img[m][i] = make(geom.Path, len(ring))
						for j, p := range ring {
							img[m][i][j] = geom.Point{X: tx + sc*(co*p.X-si*p.Y), Y: ty + sc*(si*p.X+co*p.Y)}
						}
						if sps[m].closed[i] {
							img[m][i][len(ring)-1] = img[m][i][0]
						}
					}
				}
				// exact measures of the image itself (its vertices are rounded floats)
				ia, ix, iy := imageMeasures(img)
				checkSpelling(c, img, sps, ia, ix, iy, ftol, 1000*sc, fkind, mask)
			}
		}
	}
}

// imageMeasures computes exact area/centroid of a valid multipolygon in any
// spelling (ring 0 of each member is the shell).
func imageMeasures(mp geom.MultiPolygon) (float64, float64, float64) {
	totalA, mX, mY := new(big.Rat), new(big.Rat), new(big.Rat)
	for _, pg := range mp {
		var b base
		for _, ring := range pg {
			b.rings = append(b.rings, gen.OpenRing(ring))
		}
		a, cx, cy := b.measures()
		totalA.Add(totalA, a)
		mX.Add(mX, new(big.Rat).Mul(a, cx))
		mY.Add(mY, new(big.Rat).Mul(a, cy))
	}
	return exact.F(totalA), exact.F(new(big.Rat).Quo(mX, totalA)), exact.F(new(big.Rat).Quo(mY, totalA))
}

func checkSpelling(c *core.Ctx, mp geom.MultiPolygon, sps []spelling, wantA, wantCx, wantCy, tol, scale float64, kind string, mask int) {
	h := core.NewHasher()
	gen.HashGeom(h, mp)
	c.Nontrivial(h.Sum())
	detail := map[string]interface{}{"geometry": gen.Dump(mp), "want_area": wantA, "want_centroid": []float64{wantCx, wantCy}, "reversal_mask": mask}
	if c.WantSample() && len(mp[0]) > 1 {
		c.Sample(detail)
	}
	if c.R.Chance(0.3) {
		// rings as consecutive sub-slices of one backing array (a flat coordinate buffer): a
		// ring's spare capacity is the next ring's storage
		mp = gen.InArena(mp).G.(geom.MultiPolygon)
		detail["storage"] = "rings are consecutive sub-slices of one backing array (ring k = buf[off:off+n])"
		c.Count("storage.rings_share_one_backing_array")
		kind += ":shared-storage"
	}
	var pgl geom.Polygonal = mp
	single := len(mp) == 1
	allClosed, alternating := true, true
	for _, sp := range sps {
		allClosed = allClosed && sp.allClosed()
		alternating = alternating && sp.alternating()
	}
	spellClass := fmt.Sprintf("%s:closed=%v:alternating=%v", kind, allClosed, alternating)
	okA := func(got float64) bool {
		if tol == 0 {
			return got == wantA
		}
		return math.Abs(got-wantA) <= tol*wantA
	}
	okC := func(p geom.Point) bool {
		t := tol
		if t == 0 {
			t = 1e-12
		}
		s := math.Max(scale, math.Max(math.Abs(wantCx), math.Abs(wantCy)))
		return math.Abs(p.X-wantCx) <= t*s*100 && math.Abs(p.Y-wantCy) <= t*s*100
	}
	// Area: every spelling
	c.Eval()
	c.Guard("MultiPolygon.Area", detail, func() {
		if got := pgl.Area(); !okA(got) {
			c.Violate("area:MultiPolygon:"+spellClass, fmt.Sprintf("MultiPolygon.Area() = %v, exact area %v", got, wantA), detail)
		}
		if tol == 0 {
			c.Count("area.exact_equal")
		} else {
			c.Count("area.float")
		}
	})
	if single {
		c.Eval()
		c.Guard("Polygon.Area", detail, func() {
			if got := mp[0].Area(); !okA(got) {
				c.Violate("area:Polygon:"+spellClass, fmt.Sprintf("Polygon.Area() = %v, exact area %v", got, wantA), detail)
			}
		})
	}
	// Centroid of closed rings
	if allClosed {
		c.Eval()
		c.Count("centroid.MultiPolygon")
		c.Guard("MultiPolygon.Centroid", detail, func() {
			got := pgl.Centroid()
			if !okC(got) {
				c.Violate("centroid:MultiPolygon:"+spellClass, fmt.Sprintf("MultiPolygon.Centroid() = %v, exact centroid (%v, %v)", got, wantCx, wantCy), detail)
			}
			b := mp.Bounds()
			if !(got.X >= b.Min.X && got.X <= b.Max.X && got.Y >= b.Min.Y && got.Y <= b.Max.Y) {
				c.Violate("centroid-outside-bounds:MultiPolygon", fmt.Sprintf("MultiPolygon.Centroid() = %v outside bounds %v", got, *b), detail)
			}
		})
		if single && alternating {
			c.Eval()
			c.Count("centroid.Polygon")
			c.Guard("Polygon.Centroid", detail, func() {
				if got := mp[0].Centroid(); !okC(got) {
					c.Violate("centroid:Polygon:"+spellClass, fmt.Sprintf("Polygon.Centroid() = %v, exact centroid (%v, %v)", got, wantCx, wantCy), detail)
				}
			})
			c.Eval()
			c.Count("op.centroid")
			c.Guard("op.Centroid", detail, func() {
				got, err := op.Centroid(mp[0])
				if err != nil || !okC(got) {
					c.Violate("centroid:op:"+spellClass, fmt.Sprintf("op.Centroid = %v, %v; exact centroid (%v, %v)", got, err, wantCx, wantCy), detail)
				}
			})
		}
	}
	// spellings with unclosed rings: their centroid is not defined by the property, but asking
	// for it must leave the area what it was (the polygon is a value)
	if !allClosed {
		c.Eval()
		c.Count("area.again_after_centroid_of_unclosed_spelling")
		c.Guard("Centroid(unclosed spelling)", detail, func() {
			for _, pg := range mp {
				_ = pg.Centroid()
			}
			_ = pgl.Centroid()
		})
		c.Guard("MultiPolygon.Area", detail, func() {
			if got := pgl.Area(); !okA(got) {
				c.Violate("area-after-centroid:"+kind, fmt.Sprintf("MultiPolygon.Area() = %v after Centroid() had been called on the same value, exact area %v (it was right before)", got, wantA), detail)
			}
		})
	}
	// op.Area under its documented precondition (alternating winding)
	if alternating {
		c.Eval()
		c.Count("op.area")
		c.Guard("op.Area", detail, func() {
			var g geom.Geom = mp
			if single {
				g = mp[0]
			}
			if got := op.Area(g); !okA(got) {
				c.Violate("area:op:"+spellClass, fmt.Sprintf("op.Area = %v, exact area %v", got, wantA), detail)
			}
		})
	}
}

func runLine(c *core.Ctx) {
	r := c.R
	switch r.Intn(4) {
	case 0:
		runBuffer(c)
		return
	case 1:
		runBounds(c)
		return
	}
	n := r.IntRange(2, 12)
	if r.Chance(0.12) {
		// long lines (beyond any block / chunk size an implementation might use: 64, 128, 256 …)
		n = []int{64, 65, 66, 129, 130, 200, 257, 400}[r.Intn(8)]
		c.Count("line.long")
	}
	veryLong := false
	if r.Chance(0.02) {
		// 63 .. 65537 vertices: beyond block sizes of 1024 / 4096 (pairwise or chunked summation)
		n = gen.BigLen(r)
		veryLong = true
		c.Count("line.very_long")
	}
	integer := r.Bool()
	scale := 1.0
	if !integer {
		scale = math.Pow(10, r.Range(-3, 4))
		if r.Chance(0.06) {
			// magnitudes whose squares overflow or underflow (1e155 .. 1e160 and their reciprocals)
			scale = math.Pow(10, r.Range(155, 160)*float64(1-2*r.Intn(2)))
			c.Count("line.extreme_magnitude")
		}
	}
	pt := func() geom.Point {
		if integer {
			return geom.Point{X: float64(r.IntRange(-20, 20)), Y: float64(r.IntRange(-20, 20))}
		}
		return geom.Point{X: r.Range(-20, 20) * scale, Y: r.Range(-20, 20) * scale}
	}
	nl := 1
	if r.Chance(0.3) {
		nl = r.IntRange(2, 3)
	}
	ml := make(geom.MultiLineString, nl)
	zeroLen := false
	for k := range ml {
		l := make(geom.LineString, n)
		for i := range l {
			l[i] = pt()
			if i > 0 && r.Chance(0.1) {
				l[i] = l[i-1]
				zeroLen = true
			}
		}
		ml[k] = l
	}
	var lin geom.Linear = ml
	if nl == 1 {
		lin = ml[0]
	}
	detail := map[string]interface{}{"line": gen.Dump(lin)}
	h := core.NewHasher()
	gen.HashGeom(h, lin)
	c.Nontrivial(h.Sum())
	if c.WantSample() {
		c.Sample(detail)
	}
	ext := 40 * scale
	// Length
	c.Eval()
	c.Count("length")
	wantL := 0.0
	for _, l := range ml {
		wantL += exact.Length(gen.EPath(l))
	}
	// plain left-to-right summation of n terms is accurate to about n ulps
	lenTol := math.Max(1e-12, 4*float64(n)*1.2e-16)
	c.Guard("Length", detail, func() {
		got := lin.Length()
		if math.Abs(got-wantL) > lenTol*math.Max(wantL, ext) {
			c.Violate(fmt.Sprintf("length:%T", lin), fmt.Sprintf("Length() = %v, sum of segment lengths %v", got, wantL), detail)
		}
		var g geom.Geom = lin
		if got := op.Length(g); math.Abs(got-wantL) > lenTol*math.Max(wantL, ext) {
			c.Violate(fmt.Sprintf("length:op:%T", lin), fmt.Sprintf("op.Length = %v, sum of segment lengths %v", got, wantL), detail)
		}
	})
	// Distance
	nq := 6
	if veryLong {
		nq = 1
	}
	for q := 0; q < nq; q++ {
		var p geom.Point
		l := ml[r.Intn(nl)]
		i := r.Intn(len(l) - 1)
		a, b := l[i], l[i+1]
		cat := "random"
		switch r.Intn(5) {
		case 0: // on the line
			t := r.Float64()
			if integer {
				t = 0.5
			}
			p = geom.Point{X: a.X + t*(b.X-a.X), Y: a.Y + t*(b.Y-a.Y)}
			cat = "on_line"
		case 1: // beyond an end, on the carrier line
			t := r.Range(1.1, 3)
			if r.Bool() {
				t = -r.Range(0.1, 2)
			}
			p = geom.Point{X: a.X + t*(b.X-a.X), Y: a.Y + t*(b.Y-a.Y)}
			cat = "beyond_end"
		case 2: // a vertex
			p = a
			cat = "vertex"
		default:
			p = geom.Point{X: r.Range(-30, 30) * scale, Y: r.Range(-30, 30) * scale}
		}
		c.Count("distance." + cat)
		if zeroLen {
			c.Count("distance.zero_length_segment")
		}
		want := math.Inf(1)
		for _, ll := range ml {
			for k := 0; k+1 < len(ll); k++ {
				want = math.Min(want, exact.DistPointSeg(gen.EP(p), gen.EP(ll[k]), gen.EP(ll[k+1])))
			}
		}
		c.Eval()
		d := map[string]interface{}{"line": gen.Dump(lin), "point": []float64{p.X, p.Y}, "want": want}
		c.Guard("Distance", d, func() {
			got := lin.Distance(p)
			if !(math.Abs(got-want) <= 1e-12*ext) {
				c.Violate(fmt.Sprintf("distance:%T:%s", lin, cat), fmt.Sprintf("Distance(%v) = %v, exact minimum distance %v", p, got, want), d)
			}
		})
	}
}

func runBuffer(c *core.Ctx) {
	r := c.R
	c.Eval()
	c.Count("buffer")
	rad := math.Pow(10, r.Range(-3, 4))
	ctr := geom.Point{X: r.Range(-50, 50) * rad, Y: r.Range(-50, 50) * rad}
	n := r.IntRange(3, 200)
	detail := map[string]interface{}{"center": []float64{ctr.X, ctr.Y}, "radius": rad, "segments": n}
	c.Nontrivial(core.NewHasher().F64(rad).F64(ctr.X).F64(ctr.Y).Int(n).Sum())
	c.Guard("Point.Buffer", detail, func() {
		pg := ctr.Buffer(rad, n)
		if len(pg) != 1 {
			c.Violate("buffer:rings", fmt.Sprintf("Buffer returned %d rings", len(pg)), detail)
			return
		}
		ring := gen.OpenRing(pg[0])
		if len(ring) != n {
			c.Violate("buffer:count", fmt.Sprintf("Buffer(%v,%d) has %d distinct vertices", rad, n, len(ring)), detail)
			return
		}
		tol := 8 * math.Max(math.Abs(ctr.X), math.Max(math.Abs(ctr.Y), rad)) * 2.3e-16
		for i, p := range ring {
			dist := math.Hypot(p.X-ctr.X, p.Y-ctr.Y)
			if math.Abs(dist-rad) > tol+1e-15*rad {
				c.Violate("buffer:radius", fmt.Sprintf("vertex %d at distance %v from the centre, radius %v", i, dist, rad), detail)
				return
			}
			ang := math.Atan2(p.Y-ctr.Y, p.X-ctr.X)
			want := 2 * math.Pi * float64(i) / float64(n)
			dd := math.Mod(ang-want+3*math.Pi, 2*math.Pi) - math.Pi
			if math.Abs(dd) > 1e-9+tol/rad*4 {
				c.Violate("buffer:angle", fmt.Sprintf("vertex %d at angle %v, regular polygon has %v", i, ang, want), detail)
				return
			}
		}
	})
}

func runBounds(c *core.Ctx) {
	r := c.R
	c.Eval()
	x0, y0 := float64(r.IntRange(-50, 50)), float64(r.IntRange(-50, 50))
	w, hh := float64(r.IntRange(1, 40)), float64(r.IntRange(1, 40))
	b := &geom.Bounds{Min: geom.Point{X: x0, Y: y0}, Max: geom.Point{X: x0 + w, Y: y0 + hh}}
	detail := map[string]interface{}{"bounds": gen.Dump(b)}
	c.Guard("Bounds.Area", detail, func() {
		if b.Area() != w*hh {
			c.Violate("area:*Bounds", fmt.Sprintf("Bounds.Area() = %v, want %v", b.Area(), w*hh), detail)
		}
		if ct := b.Centroid(); ct.X != x0+w/2 || ct.Y != y0+hh/2 {
			c.Violate("centroid:*Bounds", fmt.Sprintf("Bounds.Centroid() = %v", ct), detail)
		}
	})
}

// runExtreme: the centroid of figures whose extent is far from 1. The sums behind a centroid are
// cubic in the extent: a maintainer's "sum of products" overflows from 1e103 on and underflows
// below 1e-108 although the centroid itself is an ordinary multiple of the coordinates.
func runExtreme(c *core.Ctx) {
	r := c.R
	nm := 1
	if r.Chance(0.35) {
		nm = r.IntRange(2, 3)
		c.Count("extreme.multipolygon")
	}
	// an integer offset of the whole figure (exact): up to 2^6 sizes away, in a fifth of the cases
	off := 0.0
	if r.Chance(0.2) {
		off = float64(r.IntRange(1, 64) * 1024)
		c.Count("extreme.far_from_origin_as_well")
	}
	totalA, mX, mY := new(big.Rat), new(big.Rat), new(big.Rat)
	k := r.IntRange(300, 1010)
	if off != 0 {
		k = r.IntRange(300, 1000)
	}
	if r.Bool() {
		k = -r.IntRange(300, 1000)
	}
	mp := make(geom.MultiPolygon, nm)
	revAll := r.Bool()
	holes := false
	ext := 0.0
	for m := 0; m < nm; m++ {
		b := genBase(r, float64(m)*200)
		a, cx, cy := b.measures()
		totalA.Add(totalA, a)
		mX.Add(mX, new(big.Rat).Mul(a, cx))
		mY.Add(mY, new(big.Rat).Mul(a, cy))
		sp := spelling{rev: make([]bool, len(b.rings)), rot: make([]int, len(b.rings)), closed: make([]bool, len(b.rings))}
		for i := range b.rings {
			sp.rev[i] = (i > 0) != revAll
			sp.rot[i] = r.Intn(len(b.rings[i]))
			sp.closed[i] = true
		}
		holes = holes || len(b.rings) > 1
		pg := b.spell(sp)
		for _, ring := range pg {
			for i := range ring {
				ext = math.Max(ext, math.Max(math.Abs(ring[i].X), math.Abs(ring[i].Y)))
				ring[i] = geom.Point{X: math.Ldexp(ring[i].X+off, k), Y: math.Ldexp(ring[i].Y+off, k)}
			}
		}
		mp[m] = pg
	}
	if holes {
		c.Count("extreme.with_holes")
	}
	size := math.Ldexp(ext, k)
	if size >= 1e103 {
		c.Count("extreme.beyond_1e103")
	}
	if size <= 1e-108 {
		c.Count("extreme.below_1e-108")
	}
	wantCx := math.Ldexp(exact.F(new(big.Rat).Quo(mX, totalA))+off, k)
	wantCy := math.Ldexp(exact.F(new(big.Rat).Quo(mY, totalA))+off, k)
	h := core.NewHasher()
	gen.HashGeom(h, mp)
	c.Nontrivial(h.Sum())
	detail := map[string]interface{}{"geometry": gen.Dump(mp), "want_centroid": []float64{wantCx, wantCy}, "scaled_by_2_to_the": k, "offset_before_scaling": off}
	if c.WantSample() {
		c.Sample(detail)
	}
	tol := 1e-10*size + 4e-16*math.Ldexp(off, k)
	okC := func(got geom.Point) bool {
		return math.Abs(got.X-wantCx) <= tol && math.Abs(got.Y-wantCy) <= tol
	}
	class := "above"
	if k < 0 {
		class = "below"
	}
	c.Eval()
	c.Count("extreme.centroid_judged")
	c.Guard("MultiPolygon.Centroid", detail, func() {
		got := mp.Centroid()
		if !okC(got) {
			c.Violate("centroid:MultiPolygon:extreme:"+class, fmt.Sprintf("MultiPolygon.Centroid() = %v for a figure of size %.3g, exact centroid (%v, %v)", got, size, wantCx, wantCy), detail)
			return
		}
		b := mp.Bounds()
		if !(got.X >= b.Min.X && got.X <= b.Max.X && got.Y >= b.Min.Y && got.Y <= b.Max.Y) {
			c.Violate("centroid-outside-bounds:MultiPolygon:extreme", fmt.Sprintf("MultiPolygon.Centroid() = %v outside bounds %v", got, *b), detail)
		}
	})
	if nm == 1 {
		c.Eval()
		c.Guard("Polygon.Centroid", detail, func() {
			if got := mp[0].Centroid(); !okC(got) {
				c.Violate("centroid:Polygon:extreme:"+class, fmt.Sprintf("Polygon.Centroid() = %v for a figure of size %.3g, exact centroid (%v, %v)", got, size, wantCx, wantCy), detail)
			}
		})
		c.Eval()
		c.Guard("op.Centroid", detail, func() {
			got, err := op.Centroid(mp[0])
			if err != nil || !okC(got) {
				c.Violate("centroid:op:extreme:"+class, fmt.Sprintf("op.Centroid = %v, %v for a figure of size %.3g; exact centroid (%v, %v)", got, err, size, wantCx, wantCy), detail)
			}
		})
	}
}
