// Package c08 monitors property C08: every supported map projection inverts.
package c08

import (
	"fmt"
	"math"
	"regexp"

	"github.com/ctessum/geom/proj"

	"verifharness/internal/core"
	"verifharness/internal/crsgen"
)

var tmLat0 = regexp.MustCompile(` \+lat_0=[-+.0-9eE]+`)

func init() {
	core.Register(&core.Prop{
		ID: "C08",
		Rule: "case = one generated definition (longlat, merc with lat_ts or k_0, lcc 2SP/1SP, aea, eqdc, tmerc, utm zones 1-60 N/S, krovak; every built-in ellipsoid name incl. sphere, a+b, a+rf; datum none/named/towgs84 3/7; units m/ft/us-ft/to_meter; prime meridian by name or value) with 4 positions in its usable region, round-tripped p -> xy -> p' -> xy' through fresh SR objects and a fresh transformer per call against (i) the geographic system on the same ellipsoid/datum (every position of the usable region) and (iii) a geographic system that names only an ellipsoid (no datum; small-shift definitions as in ii) and (ii) WGS84 through the datum shift (positions inside the datum's area of use; whole globe for WGS84/NAD83 and small random towgs84); plus the forward/inverse closure pair of (*SR).Transformers() in radians; " +
			"violation = any error, |dlon| or |dlat| > 1e-6 deg (longitude modulo 360) or |xy'-xy| > 1 cm; an evaluation is one position round-tripped; non-trivial = definition with a datum shift, a non-metre unit, a prime meridian or a non-WGS84 ellipsoid; distinct by definition hash",
		Assumptions: []string{"WGS84 partner only inside area-of-use boxes (a 2-D transform drops the ellipsoidal height a datum shift produces; outside the area of use a correct implementation loses up to 1 m per round trip, identically in proj4js)", "usable regions as stated by the property; the longitude handed to a transformer lies inside (-179.5, 179.5) of the meridian frame it is stated in (own frame for the projection, partner frame for the geographic side); conic positions stay 0.002 deg away from the pole"},
		Phases: []core.Phase{{Name: "roundtrip", NumCases: func(t string) int {
			if t == "thorough" {
				return 1000000
			}
			return 30000
		}}},
		Run: run,
		Floors: func(t string) map[string]int64 {
			m := map[string]int64{"transformers.shared_by_the_positions_of_a_case": 3000, "partner.same_datum": 10000, "partner.wgs84_area_of_use": 2000, "partner.wgs84_small_towgs84": 1000, "partner.geographic_without_datum": 1000, "position.conic_near_pole": 300, "position.across_the_antimeridian_of_the_partner_frame": 200, "position.mercator_on_the_antimeridian": 50, "position.conic_at_the_pole": 300, "position.tm_hair_off_equator": 300, "position.tm_at_a_pole": 150, "tmerc.lat_0_at_a_pole": 50, "closure_pair": 5000, "ell.sphere": 60, "units.non_metre": 1000, "pm.set": 500}
			for _, p := range []string{"longlat", "merc", "lcc", "aea", "eqdc", "tmerc", "utm", "krovak"} {
				m["proj."+p] = 300
			}
			return m
		},
	})
}

const wgs84Geo = "+proj=longlat +datum=WGS84 +no_defs"

// tcache, when not nil, keeps the transformers of the current case: in half of the cases the
// positions of a case go through ONE forward and ONE inverse transformer, the ordinary way of using
// them (a transformer that carries anything over from one point to the next - the height left by a
// datum shift, say - drifts from the second point on).
var tcache map[string]proj.Transformer

type res struct {
	x, y float64
	err  string
}

func once(src, dst string, x, y float64) (r res) {
	defer func() {
		if p := recover(); p != nil {
			r.err = fmt.Sprintf("panic: %v", p)
		}
	}()
	s, err := proj.Parse(src)
	if err != nil {
		return res{err: "parse: " + err.Error()}
	}
	d, err := proj.Parse(dst)
	if err != nil {
		return res{err: "parse: " + err.Error()}
	}
	t, cached := tcache[src+"\x00"+dst]
	if !cached {
		t, err = s.NewTransform(d)
		if err != nil {
			return res{err: "NewTransform: " + err.Error()}
		}
		if tcache != nil {
			tcache[src+"\x00"+dst] = t
		}
	}
	if t == nil {
		return res{x: x, y: y}
	}
	ox, oy, err := t(x, y)
	if err != nil {
		return res{err: err.Error()}
	}
	if math.IsNaN(ox) || math.IsNaN(oy) || math.IsInf(ox, 0) || math.IsInf(oy, 0) {
		return res{err: fmt.Sprintf("non-finite result (%v, %v)", ox, oy)}
	}
	return res{x: ox, y: oy}
}

func lonDiff(a, b float64) float64 {
	d := math.Mod(a-b, 360)
	if d > 180 {
		d -= 360
	}
	if d < -180 {
		d += 360
	}
	return math.Abs(d)
}

func run(c *core.Ctx, idx int) {
	r := c.R
	tcache = nil
	if r.Chance(0.5) {
		tcache = map[string]proj.Transformer{}
		c.Count("transformers.shared_by_the_positions_of_a_case")
	}
	mode := r.Intn(11) // 0-5 same datum, 6-7 WGS84 in area of use, 8-9 WGS84 with small random towgs84, 10 geographic partner without datum
	var d *crsgen.Def
	var geo string
	var area *crsgen.DatumArea
	partner := ""
	switch {
	case mode <= 5:
		// random towgs84 clauses stay small (|t| <= 100 m, |r| <= 1", |s| <= 2 ppm): the
		// documented inverse of a 7-parameter shift is first order, so the WGS84 hop between a
		// system and the geographic system on its own datum is the identity only to O(r^2 R)
		d = crsgen.Gen(r, &crsgen.Options{SmallTowgs: true, NoBothDatum: true})
		if (d.Proj == "tmerc" || d.Proj == "utm") && d.DatKind != "named" && r.Chance(0.2) {
			d.Ell, d.EllKind = " +ellps=sphere", "sphere" // the spherical forms have their own code
		}
		if (d.Proj == "aea" || d.Proj == "eqdc" || d.Proj == "lcc") && d.DatKind != "named" && r.Chance(0.15) {
			d.Ell, d.EllKind = " +ellps=sphere", "sphere" // so have the conics
		}
		geo = d.Geographic().String()
		partner = "same_datum"
	case mode <= 7:
		da := crsgen.Datums[r.Intn(len(crsgen.Datums))]
		area = &da
		for try := 0; ; try++ {
			d = crsgen.Gen(r, &crsgen.Options{DatKinds: []string{"named"}, Area: area, NoBothDatum: true})
			if d.Proj == "krovak" {
				da = crsgen.Datums[11] // s_jtsk
				area = &da
			}
			// force the chosen datum
			if d.Proj != "krovak" {
				d.Datum, d.DatName, d.Ell, d.EllKind = " +datum="+da.Name, da.Name, "", "default"
			}
			if _, _, ok := d.PosIn(r, *area); ok || try > 50 {
				break
			}
		}
		geo = wgs84Geo
		partner = "wgs84_area_of_use"
	default:
		// small shift on a WGS84-like ellipsoid (semi-major axis within a few metres), so that the
		// ellipsoidal height dropped by the 2-D transform stays negligible over the whole globe
		d = crsgen.Gen(r, &crsgen.Options{Projs: []string{"longlat", "merc", "merc_k", "lcc", "lcc_1sp", "aea", "eqdc", "tmerc", "utm"}, DatKinds: []string{"towgs84_3", "towgs84_7"}, SmallTowgs: true})
		switch r.Intn(4) {
		case 0:
			d.Ell, d.EllKind = " +ellps=WGS84", "name"
		case 1:
			d.Ell, d.EllKind = " +ellps=GRS80", "name"
		case 2:
			d.Ell, d.EllKind = " +ellps=WGS7", "name"
		default:
			d.Ell, d.EllKind = " +a="+crsgen.F(6378137+r.Range(-3, 3))+" +rf="+crsgen.F(298.257+r.Range(-0.01, 0.01)), "arf"
		}
		geo = wgs84Geo
		partner = "wgs84_small_towgs84"
		if mode == 10 {
			// the geographic side names only an ellipsoid (no datum): the port, like proj4js,
			// then treats its coordinates as WGS84 for the shift to and from the other side,
			// so both round trips must still close
			geo = []string{"+proj=longlat +ellps=GRS80 +no_defs", "+proj=longlat +ellps=WGS84 +no_defs", "+proj=longlat +ellps=WGS84 +datum=none +no_defs",
				"+proj=longlat +ellps=GRS80 +nadgrids=@null +no_defs", "+proj=longlat +a=6378137 +b=6356752.3 +no_defs"}[r.Intn(5)]
			partner = "geographic_without_datum"
		}
	}
	// transverse Mercator with its origin of latitudes AT a pole (the y axis then starts there:
	// y = 0 at the pole, where a branch of the inverse takes the sign of the latitude from y)
	tmPole := 0.0
	if d.Proj == "tmerc" && area == nil && r.Chance(0.1) {
		tmPole = 90 * float64(1-2*r.Intn(2))
		d.Params = tmLat0.ReplaceAllString(d.Params, " +lat_0="+crsgen.F(tmPole))
		c.Count("tmerc.lat_0_at_a_pole")
	}
	def := d.String()
	c.Count("proj." + d.Proj)
	nontrivial := d.HasDatum() || d.ToMeter != 1 || d.PM != "" || d.EllKind != "default"
	if d.EllKind == "sphere" {
		c.Count("ell.sphere")
	}
	if d.ToMeter != 1 {
		c.Count("units.non_metre")
	}
	if d.PM != "" {
		c.Count("pm.set")
	}
	if nontrivial {
		c.Nontrivial(core.NewHasher().Str(def).Str(geo).Sum())
	}
	for k := 0; k < 4; k++ {
		var lon, lat float64
		nearPole := false
		if area != nil {
			var ok bool
			lon, lat, ok = d.PosIn(r, *area)
			if !ok {
				c.Count("skipped.no_position_in_area")
				continue
			}
		} else {
			lon, lat = d.Pos(r)
			if (d.Proj == "tmerc" || d.Proj == "utm") && d.LatMin <= 0 && d.LatMax >= 0 && r.Chance(0.12) {
				lat = math.Pow(10, r.Range(-9, -5)) * float64(1-2*r.Intn(2)) // centimetres from the equator
				c.Count("position.tm_hair_off_equator")
			}
			if (d.Proj == "tmerc" || d.Proj == "utm") && partner == "same_datum" && !d.HasDatum() && (tmPole != 0 && r.Chance(0.6) || r.Chance(0.15)) {
				// exactly at a pole (the property limits the transverse series in longitude only).
				// Only without a datum shift: the port, like proj4js, routes every pair with a
				// 3- or 7-parameter datum through WGS84, even two references with the same datum;
				// that hop returns the pole a tenth of a millimetre off the pole at an arbitrary
				// longitude - outside |lon - lon_0| <= 3.5 deg, where the series is not usable.
				lat = 90 * float64(1-2*r.Intn(2))
				if tmPole != 0 && r.Chance(0.7) {
					lat = tmPole
				}
				c.Count("position.tm_at_a_pole")
				nearPole = true
			} else if (d.Proj == "lcc" || d.Proj == "aea" || d.Proj == "eqdc") && r.Chance(0.06) {
				// the cone-side latitudes reach the pole: co-latitudes from 3 deg down to 0.002 deg.
				// (Closer than that the inverse of the equal-area and equidistant conics is
				// ill-conditioned in latitude as well - the parallels crowd together, d(rho)/d(phi)
				// goes to zero - and the original's Newton iteration, which stops at a step of 1e-7
				// rad, leaves 1e-6 deg at 1e-4 deg from the pole; the pole itself has no longitude.)
				colat := math.Pow(10, r.Range(-2.7, 0.5))
				if d.LatMax > 0 {
					lat = 90 - colat
				} else {
					lat = -90 + colat
				}
				c.Count("position.conic_near_pole")
				nearPole = true
			} else if (d.Proj == "lcc" || d.Proj == "eqdc" || (d.Proj == "aea" && d.EllKind == "sphere")) && r.Chance(0.15) {
				// the cone-side pole itself (latitude judged; the longitude difference is weighted
				// by cos(lat) = 0). The ellipsoidal equal-area conic is left out: its inverse
				// iterates on the latitude with the original's stopping step of 1e-7 rad and is
				// 1e-6..4e-6 deg off within a metre of the pole (noted in DESIGN, not repaired).
				lat = 90
				if d.LatMax <= 0 {
					lat = -90
				}
				c.Count("position.conic_at_the_pole")
				nearPole = true
			}
		}
		onSeam := false
		if partner == "same_datum" && d.Proj == "merc" && r.Chance(0.04) {
			// exactly on the antimeridian of the system's own frame (Mercator is usable at every
			// longitude; no datum shift is involved, so the longitude is not moved off the seam)
			lon = 180 * float64(1-2*r.Intn(2))
			onSeam = true
			c.Count("position.mercator_on_the_antimeridian")
		}
		// longitude in the partner's frame, brought back into (-180, 180] when the difference of
		// the prime meridians carries it across the antimeridian (the position is the same)
		lg := lon
		if partner != "same_datum" { // every other partner counts its longitudes from Greenwich
			lg = lon + d.PMDeg
			if lg > 180 {
				lg -= 360
				c.Count("position.across_the_antimeridian_of_the_partner_frame")
			} else if lg <= -180 {
				lg += 360
				c.Count("position.across_the_antimeridian_of_the_partner_frame")
			}
		}
		if (math.Abs(lon) > 179.5 || math.Abs(lg) > 179.5) && !onSeam {
			c.Count("skipped.longitude_wrap")
			continue
		}
		c.Eval()
		c.Count("partner." + partner)
		detail := map[string]interface{}{"definition": def, "geographic_partner": geo, "position": []float64{lg, lat}}
		if c.WantSample() && nontrivial && k == 0 {
			c.Sample(detail)
		}
		key := d.Proj + ":" + partner
		a := once(geo, def, lg, lat)
		if a.err != "" {
			c.Violate("error:forward:"+key, fmt.Sprintf("%s: forward transform fails inside the usable region: %s", d.Proj, core.Trunc(a.err, 120)), detail)
			continue
		}
		b := once(def, geo, a.x, a.y)
		detail["projected"] = []float64{a.x, a.y}
		if b.err != "" {
			c.Violate("error:inverse:"+key, fmt.Sprintf("%s: inverse transform fails: %s", d.Proj, core.Trunc(b.err, 120)), detail)
			continue
		}
		detail["back"] = []float64{b.x, b.y}
		dl, dp := lonDiff(b.x, lg), math.Abs(b.y-lat)
		if nearPole {
			// Within 3 degrees of a pole the meridians converge: the conic inverses recover the
			// longitude from atan2 of metre-sized offsets at a radius that goes to zero, so a
			// micrometre of rounding (or of the first-order datum-shift inverse) is 1e-5 degrees
			// of longitude. That is the conditioning of the problem, not of the code, so the
			// longitude difference is judged on the parallel (dl * cos(lat)); the latitude is
			// judged as everywhere, and the centimetre re-projection clause is not judged here.
			dl *= math.Cos(lat * math.Pi / 180)
		}
		c.Max("max_roundtrip_deg."+partner, math.Max(dl, dp))
		latTol := 1e-6
		if d.Proj == "aea" && math.Abs(lat) == 90 {
			// the equal-area conic at the pole: the latitude comes from asin of a value that is 1
			// up to rounding, so 1e-15 in the argument is 4e-6 deg (the conditioning of the
			// problem); the result must be finite, error-free and within 1e-5 deg
			latTol = 1e-5
		}
		if dl > 1e-6 || !(dp <= latTol) {
			c.Violate("roundtrip-deg:"+key, fmt.Sprintf("%s: inverse(forward(p)) is off by (%.3g, %.3g) deg (p=(%v, %v), back=(%v, %v))", d.Proj, dl, dp, lg, lat, b.x, b.y), detail)
			continue
		}
		if nearPole {
			continue
		}
		a2 := once(geo, def, b.x, b.y)
		if onSeam && a2.err == "" {
			// on the seam +180 and -180 are the same position and project to the two ends of the
			// map: the re-projection must succeed, its easting is not compared
			continue
		}
		if a2.err != "" {
			c.Violate("error:reforward:"+key, fmt.Sprintf("%s: projecting the un-projected position fails: %s", d.Proj, core.Trunc(a2.err, 120)), detail)
			continue
		}
		dm := math.Max(math.Abs(a2.x-a.x), math.Abs(a2.y-a.y)) * d.ToMeter
		if d.Proj == "longlat" {
			dm = math.Max(lonDiff(a2.x, a.x)*math.Cos(lat*math.Pi/180), math.Abs(a2.y-a.y)) * 111000
		} else if partner != "same_datum" {
			// Through a datum shift the un-projected position itself is only reproducible to the
			// few millimetres a 2-D transform allows (dropped height, first-order inverse of the
			// shift); the projection magnifies that by its local scale (k_0 up to 1.5, Mercator at
			// high latitude up to 11), so the centimetre is judged on the ground there.
			if n, e := once(geo, def, lg, lat+1e-4), once(geo, def, lg+1e-4, lat); n.err == "" && e.err == "" {
				ground := 1e-4 * math.Pi / 180 * 6371000
				scale := math.Max(math.Hypot(n.x-a.x, n.y-a.y)*d.ToMeter/ground, math.Hypot(e.x-a.x, e.y-a.y)*d.ToMeter/(ground*math.Cos(lat*math.Pi/180)))
				c.Max("max_local_scale", scale)
				if scale > 1 {
					dm /= scale
				}
			}
		}
		c.Max("max_reprojection_m."+partner, dm)
		if dm > 0.01 {
			c.Violate("reprojection:"+key, fmt.Sprintf("%s: forward(inverse(forward(p))) differs from forward(p) by %.3g m", d.Proj, dm), detail)
		}
		// closure pair of Transformers(), in radians / metres
		if d.Proj != "longlat" && k == 0 {
			c.Count("closure_pair")
			rec := core.Try(func() {
				sr, err := proj.Parse(def)
				if err != nil {
					c.Violate("closure:parse:"+d.Proj, "Parse fails: "+err.Error(), detail)
					return
				}
				fwd, inv, err := sr.Transformers()
				if err != nil {
					c.Violate("closure:error:"+d.Proj, "Transformers() fails: "+err.Error(), detail)
					return
				}
				lo, la := lon*math.Pi/180, lat*math.Pi/180
				x, y, err := fwd(lo, la)
				if err != nil {
					c.Violate("closure:forward:"+d.Proj, "forward closure fails: "+err.Error(), detail)
					return
				}
				lo2, la2, err := inv(x, y)
				if err != nil {
					c.Violate("closure:inverse:"+d.Proj, "inverse closure fails: "+err.Error(), detail)
					return
				}
				if lonDiff(lo2*180/math.Pi, lon) > 1e-6 || math.Abs(la2-la)*180/math.Pi > 1e-6 {
					c.Violate("closure:roundtrip:"+d.Proj, fmt.Sprintf("inverse(forward) closure pair off: (%v, %v) -> (%v, %v) deg", lon, lat, lo2*180/math.Pi, la2*180/math.Pi), detail)
				}
			})
			if rec != nil {
				c.Violate("closure:panic:"+d.Proj, fmt.Sprintf("Transformers() closure panicked: %v", rec), detail)
			}
		}
	}
}
