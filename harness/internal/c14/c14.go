// Package c14 monitors property C14: Clip returns exactly the parts of a
// line that lie inside the polygon.
package c14

import (
	"fmt"
	"math"
	"sort"

	"github.com/ctessum/geom"

	"verifharness/internal/c01"
	"verifharness/internal/core"
	"verifharness/internal/exact"
	"verifharness/internal/gen"
)

func init() {
	core.Register(&core.Prop{
		ID: "C14",
		Rule: "case = one simple open line string (monotone, incrementally built simple walk, spiral, axis-parallel, 2-vertex; one case in seven puts all 2-3 vertices inside one star-shaped hole, each out in a different arm of it) or multi-line string of 2-3 members that are mutually disjoint or (one case in ten) touch at their end points only - an open chain cut in two, or two arcs closing a loop, half of those with a third member ending at one of the two junctions, in any order and direction -, and one valid polygonal clip shape from the C01 generators (star with 0-3 holes, comb, staircase, multi-polygon, box; presented as Polygon, MultiPolygon or *Bounds), in general position (no line vertex within 1e-7 d of the boundary, no polygon vertex within 1e-7 d of the line); " +
			"oracle = harness reference clipping (exact crossing tests, intersection parameters, exact midpoint membership per sub-interval): inside length L*, emptiness, and for every returned vertex distance to the line and membership in / distance to the polygon; " +
			"a phase huge_box (an ordinary line against a box one to three sides of which lie 1e11..1e300 away, reference = Liang-Barsky clip against the near sides; all its violations under one key, a recorded defect of the external clipper); an evaluation is one Clip call judged; non-trivial = line that crosses the polygon boundary at least twice with 0 < L* < length; distinct by input hash",
		Assumptions: []string{"general position enforced by the harness", "tolerances 1e-9 relative (length) and 1e-9 x diameter (vertex positions)"},
		Phases: []core.Phase{{Name: "clip", NumCases: func(t string) int {
			if t == "thorough" {
				return 400000
			}
			return 12000
		}}, {Name: "tiny_magnitude", NumCases: func(t string) int {
			if t == "thorough" {
				return 20000
			}
			return 1500
		}}, {Name: "through_vertex", NumCases: func(t string) int {
			if t == "thorough" {
				return 200000
			}
			return 20000
		}}, {Name: "huge_box", NumCases: func(t string) int {
			if t == "thorough" {
				return 100000
			}
			return 10000
		}}},
		Run: run,
		Floors: func(t string) map[string]int64 {
			return map[string]int64{"cfg.entirely_inside": 100, "cfg.entirely_outside_bbox_overlap": 100, "cfg.entirely_outside_bbox_disjoint": 100, "cfg.crosses_hole": 100, "cfg.enters_several_times": 200, "cfg.two_vertex_line": 100,
				"recv.MultiLineString": 300, "arg.*Bounds": 100, "arg.MultiPolygon": 300, "arg.Polygon": 300, "result.vertices_checked": 5000, "line.long": 100, "line.axis_parallel": 500, "line.all_vertices_in_one_hole": 300, "line.vertices_around_one_hole": 300, "line.long_approach>=511": 150, "line.members_close_a_loop": 100, "line.loop_with_a_member_ending_at_a_junction": 40, "line.around_the_member_in_the_bay_of_another": 150, "scale.1e-13..1e-10": 700, "through_vertex.cases": 10000, "huge_box.cases": 5000, "huge_box.line_enters_the_box": 3000, "huge_box.as_polygon": 1000, "through_vertex.line_enters_the_polygon": 3000, "line.members_share_an_end_point": 100, "storage.paths_share_one_backing_array": 500}
		},
	})
}

func genLine(r *gen.R, cx, cy, rad float64, n int, shape string) []geom.Point {
	var pts []geom.Point
	switch shape {
	case "monotone":
		th := r.Range(0, 2*math.Pi)
		co, si := math.Cos(th), math.Sin(th)
		t := -rad
		for i := 0; i < n; i++ {
			t += 2 * rad / float64(n) * r.Range(0.5, 1.5)
			u := rad * r.Range(-1, 1)
			pts = append(pts, geom.Point{X: cx + t*co - u*si, Y: cy + t*si + u*co})
		}
	case "spiral":
		th := r.Range(0, 6)
		for i := 0; i < n; i++ {
			th += r.Range(0.3, 0.9)
			rr := rad * (0.05 + 0.06*float64(i)) * r.Range(0.98, 1.02)
			pts = append(pts, geom.Point{X: cx + rr*math.Cos(th), Y: cy + rr*math.Sin(th)})
		}
	case "axis":
		// axis-parallel lines (all vertices share one ordinate or abscissa) and staircases
		x, y := cx+r.Range(-1, 1)*rad, cy+r.Range(-1, 1)*rad
		mode := r.Intn(3)
		pts = append(pts, geom.Point{X: x, Y: y})
		for i := 1; i < n; i++ {
			st := rad * r.Range(0.1, 0.6)
			switch {
			case mode == 0 || (mode == 2 && i%2 == 1):
				x += st
			default:
				y += st
			}
			pts = append(pts, geom.Point{X: x, Y: y})
		}
	default: // simple walk
		for len(pts) < n {
			ok := false
			for try := 0; try < 30; try++ {
				var p geom.Point
				if len(pts) == 0 {
					p = geom.Point{X: cx + r.Range(-1, 1)*rad, Y: cy + r.Range(-1, 1)*rad}
				} else {
					last := pts[len(pts)-1]
					st := rad * r.Range(0.1, 0.9)
					a := r.Range(0, 2*math.Pi)
					p = geom.Point{X: last.X + st*math.Cos(a), Y: last.Y + st*math.Sin(a)}
				}
				bad := false
				if len(pts) > 0 {
					a := pts[len(pts)-1]
					for i := 0; i+1 < len(pts) && !bad; i++ {
						rel := exact.Segments(gen.EP(pts[i]), gen.EP(pts[i+1]), gen.EP(a), gen.EP(p))
						if i == len(pts)-2 {
							bad = rel == exact.ProperCross || rel == exact.Overlap || exact.OnSegment(gen.EP(p), gen.EP(pts[i]), gen.EP(pts[i+1]))
						} else {
							bad = rel != exact.Disjoint
						}
					}
				}
				if !bad {
					pts = append(pts, p)
					ok = true
					break
				}
			}
			if !ok {
				break
			}
		}
	}
	return pts
}

type piece struct{ t0, t1 float64 }

// refClip returns the total inside length, the number of boundary crossings and whether a hole edge was crossed.
func refClip(line []geom.Point, op *c01.Operand, holeRing map[int]bool) (inside float64, crossings int, crossedHole bool) {
	for s := 0; s+1 < len(line); s++ {
		a, b := gen.EP(line[s]), gen.EP(line[s+1])
		ts := []float64{0, 1}
		for ri, ring := range op.Rings {
			n := len(ring)
			for i := 0; i < n; i++ {
				c, d := ring[i], ring[(i+1)%n]
				if exact.Segments(a, b, c, d) == exact.ProperCross {
					den := (b.X-a.X)*(d.Y-c.Y) - (b.Y-a.Y)*(d.X-c.X)
					t := ((c.X-a.X)*(d.Y-c.Y) - (c.Y-a.Y)*(d.X-c.X)) / den
					ts = append(ts, t)
					crossings++
					if holeRing[ri] {
						crossedHole = true
					}
				}
			}
		}
		sort.Float64s(ts)
		segLen := math.Hypot(b.X-a.X, b.Y-a.Y)
		for k := 0; k+1 < len(ts); k++ {
			tm := (ts[k] + ts[k+1]) / 2
			if ts[k+1]-ts[k] <= 0 {
				continue
			}
			m := exact.P{X: a.X + tm*(b.X-a.X), Y: a.Y + tm*(b.Y-a.Y)}
			if exact.PointInRings(m, op.Rings, 3) == exact.Inside {
				inside += (ts[k+1] - ts[k]) * segLen
			}
		}
	}
	return
}

func distToLines(p exact.P, lines [][]geom.Point) float64 {
	d := math.Inf(1)
	for _, l := range lines {
		for i := 0; i+1 < len(l); i++ {
			d = math.Min(d, exact.FDistSeg(p, gen.EP(l[i]), gen.EP(l[i+1])))
		}
	}
	return d
}

var polyKinds = []string{"star", "starholes", "starholes", "comb", "stair", "multi", "box", "nested", "interlocked"}

func run(c *core.Ctx, idx int) {
	if c.Phase == "through_vertex" {
		runThroughVertex(c)
		return
	}
	if c.Phase == "huge_box" {
		runHugeBox(c)
		return
	}
	r := c.R
	scale := math.Pow(10, r.Range(-2, 3))
	// An extra phase documents a defect of the external clipper at small magnitudes (absolute
	// tolerances); everything it reports goes under one key.
	violate := func(key, what string, detail map[string]interface{}) {
		switch c.Phase {
		case "tiny_magnitude":
			key = "tiny-magnitude-operands"
		}
		c.Violate(key, what, detail)
	}
	switch c.Phase {
	case "tiny_magnitude":
		scale = math.Pow(10, r.Range(-13, -10))
		c.Count("scale.1e-13..1e-10")
	}
	ox, oy := r.Range(-5, 5)*scale, r.Range(-5, 5)*scale
	cfgHint := r.Intn(10)
	if c.Phase != "clip" {
		cfgHint = r.Intn(6) // the plain configurations
	}
	kind := polyKinds[r.Intn(len(polyKinds))]
	if cfgHint == 6 {
		kind = "starholes" // every line vertex inside one (concave) hole, in different arms of it
	}
	if cfgHint == 7 {
		kind = []string{"nested", "nested", "starholes"}[r.Intn(3)] // vertices in the material on different sides of a hole (and of the island in it)
	}
	op := c01.GenOperand(r, ox, oy, scale, kind, 40)
	holeRing := map[int]bool{}
	ri := 0
	for _, pg := range op.Polys {
		for k := range pg {
			if k > 0 {
				holeRing[ri] = true
			}
			ri++
		}
	}
	// the line(s)
	nl := 1
	if r.Chance(0.3) {
		nl = r.IntRange(2, 3)
	}
	var lines [][]geom.Point
	if cfgHint == 6 && len(op.Holes) > 0 && len(op.Polys) == 1 && len(op.Polys[0]) > 1 {
		// all vertices inside one star-shaped hole, each out in a different arm (towards a
		// different hole vertex): the segments between them cut across the polygon material
		// between the arms whenever the hole is concave there
		hk := r.Intn(len(op.Holes))
		hole := gen.OpenRing(op.Polys[0][1+hk])
		hc := op.Holes[hk]
		perm := r.Perm(len(hole))
		nv := r.IntRange(2, 3)
		if nv > len(hole) {
			nv = len(hole)
		}
		var l []geom.Point
		for _, vi := range perm[:nv] {
			t := r.Range(0.6, 0.97)
			l = append(l, geom.Point{X: hc.X + t*(hole[vi].X-hc.X), Y: hc.Y + t*(hole[vi].Y-hc.Y)})
		}
		lines = append(lines, l)
		nl = 0
		c.Count("line.all_vertices_in_one_hole")
	}
	if cfgHint == 7 && len(op.Polys) >= 1 && len(op.Polys[0]) > 1 {
		// vertices in the polygon material just outside one hole, on different sides of it: the
		// segments between them cross the hole - and an island (another member) lying in it
		hk := r.Intn(len(op.Polys[0]) - 1)
		hole := gen.OpenRing(op.Polys[0][1+hk])
		var hx, hy, hr float64
		for _, p := range hole {
			hx, hy = hx+p.X/float64(len(hole)), hy+p.Y/float64(len(hole))
		}
		for _, p := range hole {
			hr = math.Max(hr, math.Hypot(p.X-hx, p.Y-hy))
		}
		nv := r.IntRange(2, 4)
		th := r.Range(0, 2*math.Pi)
		var l []geom.Point
		for i := 0; i < nv; i++ {
			rad := hr * r.Range(1.05, 1.35)
			l = append(l, geom.Point{X: hx + rad*math.Cos(th), Y: hy + rad*math.Sin(th)})
			th += r.Range(1.6, 3.4)
		}
		lines = append(lines, l)
		nl = 0
		c.Count("line.vertices_around_one_hole")
	}
	touching := false
	if cfgHint == 9 {
		// members that touch at their end points only (still a simple multi-line string): an open
		// chain cut into two members at a vertex, or two arcs from A to B that together close a loop
		cx, cy := op.Cx+r.Range(-0.3, 0.3)*scale, op.Cy+r.Range(-0.3, 0.3)*scale
		ra, rb := scale*r.Range(0.2, 1.3), scale*r.Range(0.2, 1.3)
		arc := func(a0, a1 float64, n int) []geom.Point {
			var l []geom.Point
			for i := 0; i <= n; i++ {
				a := a0 + (a1-a0)*float64(i)/float64(n)
				k := 1.0
				if i > 0 && i < n {
					k = r.Range(0.85, 1.15)
				}
				l = append(l, geom.Point{X: cx + k*ra*math.Cos(a), Y: cy + k*rb*math.Sin(a)})
			}
			return l
		}
		th := r.Range(0, 2*math.Pi)
		upper := arc(th, th+math.Pi, r.IntRange(2, 6))
		lower := arc(th+2*math.Pi, th+math.Pi, r.IntRange(2, 6)) // from the same start to the same end, the other way round
		lower[0], lower[len(lower)-1] = upper[0], upper[len(upper)-1]
		if r.Bool() {
			lines = append(lines, upper, lower) // closed loop
			c.Count("line.members_close_a_loop")
			if r.Bool() {
				// and a third member that ends at one of the two junctions (a roundabout drawn as two
				// arcs, and its approach road): radially outward from the junction, then on outside the loop
				a := th
				if r.Bool() {
					a = th + math.Pi
				}
				j := geom.Point{X: cx + ra*math.Cos(a), Y: cy + rb*math.Sin(a)} // = upper[0] or upper[last] (k = 1 at the ends)
				if a == th {
					j = upper[0]
				} else {
					j = upper[len(upper)-1]
				}
				spur := []geom.Point{j}
				k := r.Range(1.3, 1.6)
				spur = append(spur, geom.Point{X: cx + k*ra*math.Cos(a), Y: cy + k*rb*math.Sin(a)})
				for n := r.Intn(3); n > 0; n-- {
					k += r.Range(0.3, 1)
					a2 := a + r.Range(-0.3, 0.3)
					spur = append(spur, geom.Point{X: cx + k*ra*math.Cos(a2), Y: cy + k*rb*math.Sin(a2)})
				}
				lines = append(lines, spur)
				c.Count("line.loop_with_a_member_ending_at_a_junction")
			}
			// any order, any directions
			for i, l := range lines {
				if r.Bool() {
					rv := make([]geom.Point, len(l))
					for q := range l {
						rv[len(l)-1-q] = l[q]
					}
					lines[i] = rv
				}
			}
			for i := len(lines) - 1; i > 0; i-- {
				q := r.Intn(i + 1)
				lines[i], lines[q] = lines[q], lines[i]
			}
		} else {
			k := r.IntRange(1, len(upper)-1)
			whole := append(append([]geom.Point{}, upper...), lower[len(lower)-2])
			_ = whole
			lines = append(lines, append([]geom.Point{}, upper[:k+1]...), append([]geom.Point{}, upper[k:]...)) // open chain in two members
			c.Count("line.members_share_an_end_point")
		}
		nl = 0
		touching = true
	}
	if cfgHint == 8 {
		// a long approach: hundreds to thousands of vertices far outside the polygon's bounding
		// box, then the line arrives (vertex index next to a multiple of 512 / 1024, or anywhere),
		// crosses the polygon and leaves; monotone along its direction, hence simple
		arrive := []int{100, 255, 256, 257, 511, 512, 513, 1023, 1024, 1025, 1535, 1536, 2047, 2048, 2049}[r.Intn(15)]
		if r.Chance(0.3) {
			arrive = r.IntRange(2, 2100)
		}
		th := r.Range(0, 2*math.Pi)
		ux, uy := math.Cos(th), math.Sin(th)
		rb := op.Out * 1.5
		var l []geom.Point
		for i := 0; i < arrive; i++ {
			t := 8*rb - (8*rb-1.6*rb)*float64(i)/float64(arrive) // from 8 rb down to 1.6 rb: outside the box
			w := r.Range(-0.3, 0.3) * rb
			l = append(l, geom.Point{X: op.Cx + t*ux - w*uy, Y: op.Cy + t*uy + w*ux})
		}
		m := r.IntRange(2, 12)
		for i := 0; i < m; i++ {
			t := 1.2*rb - 2.6*rb*float64(i)/float64(m-1)*r.Range(0.9, 1) // through the polygon to the far side
			if i > 0 && t >= 1.2*rb-2.6*rb*float64(i-1)/float64(m-1) {
				t = 1.2*rb - 2.6*rb*float64(i)/float64(m-1)
			}
			w := r.Range(-0.5, 0.5) * op.Out
			l = append(l, geom.Point{X: op.Cx + t*ux - w*uy, Y: op.Cy + t*uy + w*ux})
		}
		lines = append(lines, l)
		nl = 0
		c.Count("line.long_approach")
		if arrive >= 511 {
			c.Count("line.long_approach>=511")
		}
	}
	for k := 0; k < nl; k++ {
		n := r.IntRange(2, 14)
		if r.Chance(0.1) {
			n = 2
		} else if r.Chance(0.06) {
			n = r.IntRange(60, 250) // long lines
			c.Count("line.long")
		}
		shape := []string{"monotone", "walk", "spiral", "walk", "axis"}[r.Intn(5)]
		if shape == "axis" {
			c.Count("line.axis_parallel")
		}
		lcx, lcy, lrad := ox, oy, scale*r.Range(0.5, 2)
		switch cfgHint {
		case 0: // likely entirely inside
			lrad = op.In * 0.5
			if lrad == 0 {
				lrad = scale * 0.1
			}
		case 1: // far away: bounding boxes disjoint
			lcx += scale * 5
		case 2: // near but outside: diagonal corner
			lcx += scale * 1.1
			lcy += scale * 1.1
			lrad = scale * 0.35
		}
		if op.Kind == "interlocked" && nl == 1 && r.Chance(0.6) {
			// around the small member in the bay of the U-shaped one (both bounding boxes hold the line)
			lcx, lcy, lrad = op.Isle.X, op.Isle.Y, op.Isle.In*r.Range(0.6, 1.3)
			c.Count("line.around_the_member_in_the_bay_of_another")
		}
		// members of a multi-line string live in separate vertical strips so they are disjoint
		if nl > 1 {
			lcy += (float64(k) - float64(nl-1)/2) * scale * 1.2
			lrad = math.Min(lrad, scale*0.5)
			if shape != "axis" {
				shape = "monotone"
			}
		}
		l := genLine(r, lcx, lcy, lrad, n, shape)
		if nl > 1 {
			// clamp the strip: monotone lines are rotated randomly, so verify disjointness exactly below
		}
		if len(l) < 2 {
			c.Count("rejected.short_line")
			return
		}
		lines = append(lines, l)
	}
	// simplicity and mutual disjointness of members (exact)
	for i, l := range lines {
		if ok, _, _ := exact.SimplePolyline(gen.EPath(l)); !ok {
			c.Count("rejected.not_simple")
			return
		}
		for j := i + 1; j < len(lines) && !touching; j++ {
			for a := 0; a+1 < len(l); a++ {
				for b := 0; b+1 < len(lines[j]); b++ {
					if exact.Segments(gen.EP(l[a]), gen.EP(l[a+1]), gen.EP(lines[j][b]), gen.EP(lines[j][b+1])) != exact.Disjoint {
						c.Count("rejected.members_intersect")
						return
					}
				}
			}
		}
	}
	// general position
	minx, miny, maxx, maxy := math.Inf(1), math.Inf(1), math.Inf(-1), math.Inf(-1)
	ext := func(p exact.P) {
		minx, miny, maxx, maxy = math.Min(minx, p.X), math.Min(miny, p.Y), math.Max(maxx, p.X), math.Max(maxy, p.Y)
	}
	for _, ring := range op.Rings {
		for _, p := range ring {
			ext(p)
		}
	}
	pminx, pminy, pmaxx, pmaxy := minx, miny, maxx, maxy
	lminx, lminy, lmaxx, lmaxy := math.Inf(1), math.Inf(1), math.Inf(-1), math.Inf(-1)
	for _, l := range lines {
		for _, p := range l {
			ext(gen.EP(p))
			lminx, lminy, lmaxx, lmaxy = math.Min(lminx, p.X), math.Min(lminy, p.Y), math.Max(lmaxx, p.X), math.Max(lmaxy, p.Y)
		}
	}
	diam := math.Hypot(maxx-minx, maxy-miny)
	delta := 1e-7 * diam
	for _, l := range lines {
		for _, p := range l {
			if exact.DistToRings(gen.EP(p), op.Rings) <= delta {
				c.Count("rejected.not_general_position")
				return
			}
		}
	}
	for _, ring := range op.Rings {
		for _, p := range ring {
			if distToLines(p, lines) <= delta {
				c.Count("rejected.not_general_position")
				return
			}
		}
	}
	// reference
	var wantIn, total float64
	crossings := 0
	crossedHole := false
	for _, l := range lines {
		in, cr, ch := refClip(l, &op, holeRing)
		wantIn += in
		crossings += cr
		crossedHole = crossedHole || ch
		total += exact.Length(gen.EPath(l))
	}
	bbDisjoint := lmaxx < pminx || pmaxx < lminx || lmaxy < pminy || pmaxy < lminy
	switch {
	case crossings == 0 && wantIn > 0:
		c.Count("cfg.entirely_inside")
	case crossings == 0 && bbDisjoint:
		c.Count("cfg.entirely_outside_bbox_disjoint")
	case crossings == 0:
		c.Count("cfg.entirely_outside_bbox_overlap")
	}
	if crossedHole {
		c.Count("cfg.crosses_hole")
	}
	if crossings >= 4 {
		c.Count("cfg.enters_several_times")
	}
	if len(lines) == 1 && len(lines[0]) == 2 {
		c.Count("cfg.two_vertex_line")
	}
	// presentations
	var lin geom.Linear
	if len(lines) == 1 && r.Chance(0.6) {
		lin = geom.LineString(lines[0])
		c.Count("recv.LineString")
	} else {
		ml := make(geom.MultiLineString, len(lines))
		for i, l := range lines {
			ml[i] = l
		}
		lin = ml
		c.Count("recv.MultiLineString")
	}
	var pgl geom.Polygonal
	switch {
	case op.Box != nil && r.Chance(0.6):
		pgl = op.Box
		c.Count("arg.*Bounds")
	case len(op.Polys) == 1 && r.Bool():
		pgl = op.Polys[0]
		c.Count("arg.Polygon")
	default:
		pgl = geom.MultiPolygon(op.Polys)
		c.Count("arg.MultiPolygon")
	}
	detail := map[string]interface{}{"line": gen.Dump(lin), "polygon": gen.Dump(pgl), "want_inside_length": wantIn, "boundary_crossings": crossings}
	h := core.NewHasher()
	gen.HashGeom(h, lin)
	gen.HashGeom(h, pgl)
	if crossings >= 2 && wantIn > 0 && wantIn < total {
		c.Nontrivial(h.Sum())
		if c.WantSample() {
			c.Sample(detail)
		}
	}
	if r.Chance(0.3) {
		// both arguments with their paths as consecutive sub-slices of one backing array each
		// (see gen.InArena); the oracle keeps reading the separately allocated originals
		lin = gen.InArena(lin.(geom.Geom)).G.(geom.Linear)
		if _, isBox := pgl.(*geom.Bounds); !isBox {
			pgl = gen.InArena(pgl.(geom.Geom)).G.(geom.Polygonal)
		}
		detail["storage"] = "paths are consecutive sub-slices of one backing array"
		c.Count("storage.paths_share_one_backing_array")
	}
	c.Eval()
	before := gen.DeepCopy(lin)
	var res geom.Linear
	if c.Guard(fmt.Sprintf("%T.Clip", lin), detail, func() { res = lin.Clip(pgl) }) {
		return
	}
	if ok, why := gen.SameStructure(before, lin); !ok {
		violate("input-modified", "Clip modified the line: "+why, detail)
	}
	var pieces geom.MultiLineString
	switch t := res.(type) {
	case nil:
	case geom.MultiLineString:
		pieces = t
	case geom.LineString:
		pieces = geom.MultiLineString{t}
	default:
		violate("result-type", fmt.Sprintf("Clip returned %T", res), detail)
		return
	}
	detail["result"] = gen.Dump(pieces)
	nonEmpty := false
	for _, p := range pieces {
		if len(p) > 0 {
			nonEmpty = true
		}
	}
	if wantIn == 0 {
		if nonEmpty {
			violate("not-empty", fmt.Sprintf("the line does not enter the polygon but Clip returned %d pieces", len(pieces)), detail)
		}
		return
	}
	if !nonEmpty {
		violate("empty", fmt.Sprintf("the line has %v of its length inside the polygon but Clip returned nothing", wantIn), detail)
		return
	}
	gotLen := pieces.Length()
	refLen := 0.0
	for _, p := range pieces {
		refLen += exact.Length(gen.EPath(p))
	}
	if math.Abs(refLen-wantIn) > 1e-9*math.Max(wantIn, diam*1e-3) {
		kind := "too-short"
		if refLen > wantIn {
			kind = "too-long"
		}
		violate("length:"+kind, fmt.Sprintf("clipped pieces have total length %v, the intersection of line and polygon has %v", refLen, wantIn), detail)
		return
	}
	if math.Abs(gotLen-refLen) > 1e-12*math.Max(refLen, diam) {
		violate("length-method", fmt.Sprintf("Length() of the result = %v, its segments sum to %v", gotLen, refLen), detail)
	}
	for _, p := range pieces {
		for _, v := range p {
			c.Count("result.vertices_checked")
			e := gen.EP(v)
			if d := distToLines(e, lines); d > 1e-9*diam {
				violate("vertex-off-line", fmt.Sprintf("result vertex %s is %v away from the line", gen.PtStr(v), d), detail)
				return
			}
			if exact.PointInRings(e, op.Rings, 3) == exact.Outside && exact.DistToRings(e, op.Rings) > 1e-9*diam {
				violate("vertex-outside-polygon", fmt.Sprintf("result vertex %s lies outside the polygon", gen.PtStr(v)), detail)
				return
			}
		}
	}
}
