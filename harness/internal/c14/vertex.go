package c14

import (
	"fmt"
	"math"
	"sort"

	"github.com/ctessum/geom"

	"verifharness/internal/core"
	"verifharness/internal/exact"
	"verifharness/internal/gen"
)

// runThroughVertex is the 'through_vertex' phase: small polygons and lines on an integer grid,
// one segment of the line passing exactly through a vertex of the polygon. No line vertex lies on
// the boundary and nothing overlaps collinearly, so the pair is inside the property's notion of
// general position. Every violation of this phase is reported under one key: the phase documents
// a defect of the external clipper (its sweep mishandles an intersection that coincides with a
// vertex of the clip polygon), which geom hands its operands to unchanged.
func runThroughVertex(c *core.Ctx) {
	r := c.R
	violate := func(what string, detail map[string]interface{}) {
		c.Violate("line-through-polygon-vertex", what, detail)
	}
	// polygon: a star ring rounded to the integer grid
	var ring geom.Path
	for tries := 0; ; tries++ {
		if tries > 50 {
			c.Count("through_vertex.rejected")
			return
		}
		sh := gen.StarPolygon(r, float64(r.IntRange(40, 60)), float64(r.IntRange(40, 60)), float64(r.IntRange(8, 40)), r.IntRange(3, 9), 0, 0)
		ring = ring[:0]
		for _, p := range gen.OpenRing(sh.Poly[0]) {
			ring = append(ring, geom.Point{X: math.Round(p.X), Y: math.Round(p.Y)})
		}
		if len(ring) >= 3 && exact.SimpleRing(gen.EPath(ring)) && exact.Area2(gen.EPath(ring)).Sign() != 0 {
			break
		}
	}
	ering := gen.EPath(ring)
	rings := [][]exact.P{ering}
	// line: through vertex v
	v := ring[r.Intn(len(ring))]
	var line []geom.Point
	for tries := 0; ; tries++ {
		if tries > 50 {
			c.Count("through_vertex.rejected")
			return
		}
		dx, dy := float64(r.IntRange(-7, 7)), float64(r.IntRange(-7, 7))
		if dx == 0 && dy == 0 {
			continue
		}
		m, n := float64(r.IntRange(1, 6)), float64(r.IntRange(1, 6))
		a, b := geom.Point{X: v.X - m*dx, Y: v.Y - m*dy}, geom.Point{X: v.X + n*dx, Y: v.Y + n*dy}
		line = []geom.Point{a, b}
		if r.Chance(0.4) {
			x := geom.Point{X: float64(r.IntRange(0, 100)), Y: float64(r.IntRange(0, 100))}
			if r.Bool() {
				line = []geom.Point{x, a, b}
			} else {
				line = []geom.Point{a, b, x}
			}
		}
		ok, _, _ := exact.SimplePolyline(gen.EPath(line))
		for _, p := range line {
			if exact.DistToRings(gen.EP(p), rings) == 0 {
				ok = false
			}
		}
		for s := 0; ok && s+1 < len(line); s++ {
			for i := range ering {
				if exact.Segments(gen.EP(line[s]), gen.EP(line[s+1]), ering[i], ering[(i+1)%len(ering)]) == exact.Overlap {
					ok = false
				}
			}
		}
		if ok {
			break
		}
	}
	// reference: parameters of every meeting point (crossings and touches), exact membership of the
	// midpoints of the sub-intervals
	wantIn := 0.0
	for s := 0; s+1 < len(line); s++ {
		a, b := gen.EP(line[s]), gen.EP(line[s+1])
		ts := []float64{0, 1}
		for i := range ering {
			p, q := ering[i], ering[(i+1)%len(ering)]
			if rel := exact.Segments(a, b, p, q); rel == exact.ProperCross || rel == exact.Touch {
				den := (b.X-a.X)*(q.Y-p.Y) - (b.Y-a.Y)*(q.X-p.X)
				if den != 0 {
					ts = append(ts, ((p.X-a.X)*(q.Y-p.Y)-(p.Y-a.Y)*(q.X-p.X))/den) // exact: small integers
				}
			}
		}
		sort.Float64s(ts)
		segLen := math.Hypot(b.X-a.X, b.Y-a.Y)
		for k := 0; k+1 < len(ts); k++ {
			if ts[k+1] <= ts[k] {
				continue
			}
			tm := (ts[k] + ts[k+1]) / 2
			if exact.PointInRings(exact.P{X: a.X + tm*(b.X-a.X), Y: a.Y + tm*(b.Y-a.Y)}, rings, 3) == exact.Inside {
				wantIn += (ts[k+1] - ts[k]) * segLen
			}
		}
	}
	c.Eval()
	c.Count("through_vertex.cases")
	if wantIn > 0 {
		c.Count("through_vertex.line_enters_the_polygon")
	}
	h := core.NewHasher()
	gen.HashGeom(h, geom.Polygon{ring})
	gen.HashGeom(h, geom.LineString(line))
	c.Nontrivial(h.Sum())
	pg := geom.Polygon{gen.RespellRandom(r, ring)}
	var pgl geom.Polygonal = pg
	if r.Bool() {
		pgl = geom.MultiPolygon{pg}
	}
	detail := map[string]interface{}{"line": gen.Dump(geom.LineString(line)), "polygon": gen.Dump(pgl.(geom.Geom)), "polygon_vertex_on_the_line": []float64{v.X, v.Y}, "inside_length": wantIn}
	var res geom.Linear
	if c.Guard("LineString.Clip(through a polygon vertex)", detail, func() { res = geom.LineString(line).Clip(pgl) }) {
		return
	}
	var pieces geom.MultiLineString
	switch t := res.(type) {
	case nil:
	case geom.MultiLineString:
		pieces = t
	case geom.LineString:
		pieces = geom.MultiLineString{t}
	}
	detail["result"] = gen.Dump(pieces)
	got := 0.0
	for _, p := range pieces {
		got += exact.Length(gen.EPath(p))
	}
	if math.Abs(got-wantIn) > 1e-9*math.Max(wantIn, 1) {
		violate(fmt.Sprintf("the line passes through polygon vertex (%v, %v); the clipped pieces have total length %v, the intersection of line and polygon has %v", v.X, v.Y, got, wantIn), detail)
	}
}

// runHugeBox is the 'huge_box' phase: an ordinary simple line clipped by a box one to three sides of
// which lie 1e11 .. 1e300 away (the extent of "everything east of x = 3"), the other sides passing
// through the line's neighbourhood. The far sides never meet the line, so the reference is the
// Liang-Barsky clip of every segment against the near sides alone. Every violation of this phase
// is reported under one key: the external clipper computes the crossing of a line segment with a
// box side of length 1e11 and more from the far end of that side, and the point it returns is
// off the line by the rounding error of that length.
func runHugeBox(c *core.Ctx) {
	r := c.R
	n := r.IntRange(2, 5)
	var line []geom.Point
	for tries := 0; ; tries++ {
		if tries > 50 {
			return
		}
		line = line[:0]
		for i := 0; i < n; i++ {
			p := geom.Point{X: r.Range(-10, 10), Y: r.Range(-10, 10)}
			if r.Chance(0.3) {
				p = geom.Point{X: math.Round(p.X), Y: math.Round(p.Y)}
			}
			line = append(line, p)
		}
		if ok, _, _ := exact.SimplePolyline(gen.EPath(line)); ok {
			break
		}
	}
	h := func() float64 { return math.Pow(10, r.Range(11, 300)) }
	// near sides (some), far sides (the rest; at least one)
	b := geom.Bounds{Min: geom.Point{X: r.Range(-9, 0), Y: r.Range(-9, 0)}, Max: geom.Point{X: r.Range(0, 9), Y: r.Range(0, 9)}}
	nearMinX, nearMinY, nearMaxX, nearMaxY := true, true, true, true
	far := 0
	for far == 0 {
		if r.Chance(0.4) {
			b.Min.X, nearMinX = -h(), false
			far++
		}
		if r.Chance(0.4) {
			b.Min.Y, nearMinY = -h(), false
			far++
		}
		if r.Chance(0.4) {
			b.Max.X, nearMaxX = h(), false
			far++
		}
		if r.Chance(0.4) {
			b.Max.Y, nearMaxY = h(), false
			far++
		}
	}
	// general position: no line vertex within 1e-6 of a near side
	for _, p := range line {
		if nearMinX && math.Abs(p.X-b.Min.X) < 1e-6 || nearMaxX && math.Abs(p.X-b.Max.X) < 1e-6 || nearMinY && math.Abs(p.Y-b.Min.Y) < 1e-6 || nearMaxY && math.Abs(p.Y-b.Max.Y) < 1e-6 {
			return
		}
	}
	// reference
	wantIn := 0.0
	for s := 0; s+1 < len(line); s++ {
		a, q := line[s], line[s+1]
		t0, t1 := 0.0, 1.0
		clip := func(p, d float64) { // keeps t with p + t*d >= 0
			if d == 0 {
				if p < 0 {
					t1 = -1
				}
				return
			}
			t := -p / d
			if d > 0 {
				t0 = math.Max(t0, t)
			} else {
				t1 = math.Min(t1, t)
			}
		}
		if nearMinX {
			clip(a.X-b.Min.X, q.X-a.X)
		}
		if nearMaxX {
			clip(b.Max.X-a.X, a.X-q.X)
		}
		if nearMinY {
			clip(a.Y-b.Min.Y, q.Y-a.Y)
		}
		if nearMaxY {
			clip(b.Max.Y-a.Y, a.Y-q.Y)
		}
		if t1 > t0 {
			wantIn += (t1 - t0) * math.Hypot(q.X-a.X, q.Y-a.Y)
		}
	}
	c.Eval()
	c.Count("huge_box.cases")
	if wantIn > 0 {
		c.Count("huge_box.line_enters_the_box")
	}
	hs := core.NewHasher()
	gen.HashGeom(hs, &b)
	gen.HashGeom(hs, geom.LineString(line))
	c.Nontrivial(hs.Sum())
	var pgl geom.Polygonal = &b
	if r.Chance(0.4) {
		pgl = geom.Polygon{{b.Min, {X: b.Max.X, Y: b.Min.Y}, b.Max, {X: b.Min.X, Y: b.Max.Y}, b.Min}}
		c.Count("huge_box.as_polygon")
	}
	detail := map[string]interface{}{"line": gen.Dump(geom.LineString(line)), "box": gen.Dump(pgl.(geom.Geom)), "inside_length": wantIn}
	var res geom.Linear
	if c.Guard("LineString.Clip(huge box)", detail, func() { res = geom.LineString(line).Clip(pgl) }) {
		return
	}
	var pieces geom.MultiLineString
	switch t := res.(type) {
	case nil:
	case geom.MultiLineString:
		pieces = t
	case geom.LineString:
		pieces = geom.MultiLineString{t}
	}
	detail["result"] = gen.Dump(pieces)
	got := 0.0
	for _, p := range pieces {
		got += exact.Length(gen.EPath(p))
	}
	if !(math.Abs(got-wantIn) <= 1e-9*math.Max(wantIn, 1)) {
		c.Violate("box-far-larger-than-line", fmt.Sprintf("box with sides 1e11 and more away: the clipped pieces have total length %v, the intersection of line and box has %v", got, wantIn), detail)
	}
}
