// Package c13 monitors property C13: Simplify keeps endpoints, stays within
// tolerance and adds no self-intersection.
package c13

import (
	"fmt"
	"math"

	"github.com/ctessum/geom"

	"verifharness/internal/core"
	"verifharness/internal/exact"
	"verifharness/internal/gen"
)

const sentinel = "verif: simplifier bounded-progress assertion failed"

func init() {
	core.Register(&core.Prop{
		ID: "C13",
		Rule: "case = one curve with 0..120 (400 thorough) pairwise-distinct vertices (8%: with 1-3 later, non-adjacent copies of earlier vertices - spurs, pinches, inner loops - judged by searching for any admissible embedding; incrementally built random simple lines checked by the exact simplicity test, monotone lines, zigzags, spirals, 'hook' lines whose end returns near the start, near-collinear runs, and unfiltered random lines for the termination/subsequence/tolerance clauses) and a tolerance from {0, 1e-12 d, U(0,d), >d, +Inf}, simplified as LineString and as member of MultiLineString / ring of Polygon / MultiPolygon; " +
			"monitors: a second high-volume phase of 'box walks' (6..40 vertices uniform in a box, exactly simple, 60% ending inside a pocket of three earlier consecutive vertices, tolerance U(0,0.4) of the box) aimed at multi-step back-off in one scan step; hooked step counter (output never longer than input, loop steps <= 4n^2+100) turning non-termination into a finite violation; output is an order-preserving subsequence keeping first and last vertex; every dropped vertex within tol(1+1e-12) of its replacing segment (extended precision); exact simplicity of the output when the input is exactly simple; input unmodified; members simplified independently; " +
			"a third phase 'far_vertex': an ordinary simple box walk whose first or last vertex (or both) is moved out to 1e20..1e300 (axis-parallel, diagonal or oblique), 20% with the ordinary part itself 1e-120..1e-3 in size (then one far end only), 8% with both ends in the last binade on opposite sides (their difference is no float64); judged with a rounding slack of 64 times what one ulp of each coordinate of the vertex and of the two ends can change the distance by (an X ordinate counts with |uy|, a Y ordinate with |ux| of the unit vector along the segment when the vertex projects into it), so that an ordinary vertex hundreds of units off a segment reaching out to 1e200 must be kept; an evaluation is one Simplify call judged; non-trivial = simple input with >= 4 vertices from which at least one vertex was dropped; distinct by input hash",
		Assumptions: []string{"'terminates' is decided as bounded progress on the hooked loops", "vertices pairwise distinct so that the subsequence match is unambiguous, except in the revisit cases, where any admissible embedding is searched for", "simplicity preservation is judged for open line strings that are simple by the exact test"},
		Phases: []core.Phase{{Name: "curves", NumCases: func(t string) int {
			if t == "thorough" {
				return 400000
			}
			return 24000
		}}, {Name: "boxwalks", NumCases: func(t string) int {
			if t == "thorough" {
				return 3000000
			}
			return 90000
		}}, {Name: "far_vertex", NumCases: func(t string) int {
			if t == "thorough" {
				return 600000
			}
			return 48000
		}}},
		Run:   run,
		Setup: func(c *core.Ctx) { geom.VerifSimplifyHook = hook },
		Floors: func(t string) map[string]int64 {
			return map[string]int64{"len.0": 20, "len.1": 20, "len.2": 20, "len.3": 20, "simple_input.judged": 3000, "dropped_vertices.checked": 10000, "shape.hook": 500, "shape.spiral": 500, "shape.out_and_back": 500,
				"tol.zero": 500, "tol.inf": 500, "storage.members_share_one_backing_array": 1000, "polygon.rings_unclosed": 500, "revisit.judged": 500, "boxwalk.simple_judged": 50000, "boxwalk.on_an_integer_lattice": 10000, "boxwalk.tail_returns_into_pocket": 10000, "boxwalk.vertices_dropped": 25000, "multi.members_independent": 500, "polygon.rings": 500, "hook.steps_seen": 10000,
				"far.simple_judged": 2000, "far.vertices_dropped": 500, "far.ordinary_vertex_kept_for_tolerance": 300, "far.end_beyond_1e154": 1000, "far.ordinary_part_tiny": 1000, "far.end_in_the_last_binade": 500, "far.ends_on_opposite_sides_in_the_last_binade": 300, "far.short_cut_across_the_far_segment": 1500, "far.short_cut_with_products_either_side_of_overflow": 800}
		},
	})
}

var (
	steps    int
	stepsMax int
	hookSeen int64
)

func hook(outLen, curveLen int) {
	steps++
	hookSeen++
	if outLen > curveLen || steps > stepsMax {
		panic(sentinel)
	}
}

func dist(a, b geom.Point) float64 { return math.Hypot(a.X-b.X, a.Y-b.Y) }

// genCurve returns a curve of about n vertices and its shape label.
// tolHint is set by genCurve for shapes that are aimed at one tolerance (0 otherwise).
var tolHint float64

func genCurve(r *gen.R, n int) ([]geom.Point, string) {
	scale := math.Pow(10, r.Range(-2, 3))
	ox, oy := r.Range(-10, 10)*scale, r.Range(-10, 10)*scale
	if r.Chance(0.25) {
		// metre-sized features in degrees: vertex spacing 1e-7 .. 1e-3 at a lon/lat position
		scale = math.Pow(10, r.Range(-6.5, -3))
		ox, oy = r.Range(-180, 180), r.Range(-85, 85)
	}
	pts := make([]geom.Point, 0, n)
	shape := []string{"simple_walk", "simple_walk", "monotone", "zigzag", "spiral", "hook", "hook", "collinear", "random", "wedge", "out_and_back"}[r.Intn(11)]
	tolHint = 0
	crosses := func(a, b geom.Point) bool {
		m := len(pts)
		for i := 0; i+1 < m; i++ {
			rel := exact.Segments(gen.EP(pts[i]), gen.EP(pts[i+1]), gen.EP(a), gen.EP(b))
			if i == m-2 {
				if rel == exact.ProperCross || rel == exact.Overlap || exact.OnSegment(gen.EP(b), gen.EP(pts[i]), gen.EP(pts[i+1])) || exact.OnSegment(gen.EP(pts[i]), gen.EP(a), gen.EP(b)) {
					return true
				}
				continue
			}
			if rel != exact.Disjoint {
				return true
			}
		}
		return false
	}
	walk := func(target int, near *geom.Point) {
		for len(pts) < target {
			ok := false
			for try := 0; try < 40; try++ {
				var p geom.Point
				if len(pts) == 0 {
					p = geom.Point{X: ox + r.Range(-1, 1)*scale, Y: oy + r.Range(-1, 1)*scale}
				} else {
					last := pts[len(pts)-1]
					step := scale * r.Range(0.05, 0.6)
					th := r.Range(0, 2*math.Pi)
					p = geom.Point{X: last.X + step*math.Cos(th), Y: last.Y + step*math.Sin(th)}
					if near != nil && len(pts) == target-1 {
						p = geom.Point{X: near.X + r.Range(-0.2, 0.2)*scale, Y: near.Y + r.Range(-0.2, 0.2)*scale}
					}
				}
				if len(pts) > 0 && (p == pts[len(pts)-1] || crosses(pts[len(pts)-1], p)) {
					continue
				}
				pts = append(pts, p)
				ok = true
				break
			}
			if !ok {
				return
			}
		}
	}
	switch shape {
	case "simple_walk":
		walk(n, nil)
	case "hook":
		walk(n-1, nil)
		if len(pts) > 0 {
			start := pts[0]
			walk(len(pts)+1, &start)
		}
	case "monotone", "zigzag":
		x := ox
		for i := 0; i < n; i++ {
			x += scale * r.Range(0.01, 1)
			y := oy + scale*r.Range(-1, 1)
			if shape == "zigzag" {
				y = oy + scale*float64(1-2*(i%2))*r.Range(0.5, 1)
			}
			pts = append(pts, geom.Point{X: x, Y: y})
		}
	case "spiral":
		th := r.Range(0, 6)
		for i := 0; i < n; i++ {
			th += r.Range(0.2, 0.9)
			rad := scale * (0.1 + 0.08*th) * r.Range(0.97, 1.03)
			pts = append(pts, geom.Point{X: ox + rad*math.Cos(th), Y: oy + rad*math.Sin(th)})
		}
	case "collinear":
		dx, dy := math.Cos(r.Range(0, 6.28)), math.Sin(r.Range(0, 6.28))
		t := 0.0
		for i := 0; i < n; i++ {
			t += scale * r.Range(0.01, 1)
			e := scale * 1e-9 * r.Range(-1, 1)
			if r.Chance(0.1) {
				e = scale * r.Range(-0.3, 0.3)
			}
			pts = append(pts, geom.Point{X: ox + t*dx - e*dy, Y: oy + t*dy + e*dx})
		}
	case "wedge":
		// a thin wedge with its apex at the start: out along one side, back along the other
		dx, dy := math.Cos(r.Range(0, 6.28)), math.Sin(r.Range(0, 6.28))
		half := (n + 1) / 2
		width := scale * math.Pow(10, r.Range(-4, -1))
		for i := 0; i < half; i++ {
			t := scale * float64(i+1) / float64(half)
			jt := 1 + r.Range(-0.2, 0.2) // jitter: no three vertices exactly collinear (general position)
			pts = append(pts, geom.Point{X: ox + t*dx - jt*width*t/scale*dy, Y: oy + t*dy + jt*width*t/scale*dx})
		}
		for i := half - 1; i >= 1 && len(pts) < n; i-- {
			t := scale * (float64(i) + 0.5) / float64(half)
			jt := 1 + r.Range(-0.2, 0.2)
			pts = append(pts, geom.Point{X: ox + t*dx + jt*width*t/scale*dy, Y: oy + t*dy - jt*width*t/scale*dx})
		}
		pts = append([]geom.Point{{X: ox, Y: oy}}, pts...)
	case "out_and_back":
		// out along a shallow roof A-B-C, down at the far end, and back underneath it on a segment S-T
		// that rises through the chord A-C at a very shallow angle while staying below the roof: the
		// chord that would replace the roof (B is within the tolerance) crosses S-T at 1e-5 .. 1e-3 rad
		L := scale * r.Range(0.5, 2)
		th := r.Range(0, 2*math.Pi)
		h := L * math.Pow(10, r.Range(-5, -3)) // height of the roof
		x1 := r.Range(0.6, 0.95)                // position of its ridge
		t := r.Range(0.3, 0.55)                 // S-T ends at t*L, where the roof is at h*t/x1
		e2 := h * t / x1 * r.Range(0.2, 0.8)
		e1 := h * r.Range(0.5, 3)
		s0 := r.Range(0.02, 0.2)
		loc := []geom.Point{{X: 0, Y: 0}, {X: x1 * L, Y: h}, {X: L, Y: 0}, {X: L * 1.001, Y: -20 * h}, {X: s0 * L, Y: -e1}, {X: t * L, Y: e2}}
		if n > 6 {
			loc = append(loc, geom.Point{X: t * L * r.Range(0.5, 0.9), Y: -40 * h})
		}
		co, si := math.Cos(th), math.Sin(th)
		for _, q := range loc {
			pts = append(pts, geom.Point{X: ox + co*q.X - si*q.Y, Y: oy + si*q.X + co*q.Y})
		}
		tolHint = h * r.Range(1.2, 4)
	case "random":
		for i := 0; i < n; i++ {
			pts = append(pts, geom.Point{X: ox + scale*r.Range(-1, 1), Y: oy + scale*r.Range(-1, 1)})
		}
	}
	// pairwise distinct
	seen := map[geom.Point]bool{}
	out := pts[:0]
	for _, p := range pts {
		if !seen[p] {
			seen[p] = true
			out = append(out, p)
		}
	}
	return out, shape
}

type result struct {
	out      []geom.Point
	panicked interface{}
	nonTerm  bool
}

func simplifyLine(l geom.LineString, tol float64) (res result) {
	n := len(l)
	steps, stepsMax = 0, 4*n*n+100
	defer func() {
		if r := recover(); r != nil {
			if s, ok := r.(string); ok && s == sentinel {
				res.nonTerm = true
			} else {
				res.panicked = r
			}
		}
	}()
	g := l.Simplify(tol)
	ls, ok := g.(geom.LineString)
	if !ok {
		res.panicked = fmt.Sprintf("Simplify returned %T", g)
		return
	}
	res.out = ls
	return
}

// judge checks one (input curve, output) pair. ring reports that the curve is
// a polygon ring (simplicity is then not judged).
func judge(c *core.Ctx, in []geom.Point, out []geom.Point, tol float64, shape, kind string, simpleIn bool, detail map[string]interface{}) {
	n := len(in)
	if n == 0 {
		if len(out) != 0 {
			c.Violate("empty-input:"+kind, fmt.Sprintf("Simplify of an empty %s returned %d vertices", kind, len(out)), detail)
		}
		return
	}
	// order-preserving subsequence keeping first and last
	idx := make([]int, 0, len(out))
	j := 0
	for _, p := range out {
		for j < n && !gen.BitsEqual(in[j], p) {
			j++
		}
		if j == n {
			c.Violate("not-subsequence:"+kind, fmt.Sprintf("output vertex %s is not an input vertex in order (input %d vertices, output %d)", gen.PtStr(p), n, len(out)), detail)
			return
		}
		idx = append(idx, j)
		j++
	}
	if len(idx) == 0 || idx[0] != 0 {
		c.Violate("first-dropped:"+kind, "output does not start with the first input vertex", detail)
		return
	}
	if idx[len(idx)-1] != n-1 {
		c.Violate("last-dropped:"+kind, fmt.Sprintf("output does not end with the last input vertex (input %d vertices, output %d)", n, len(out)), detail)
		return
	}
	// tolerance of every dropped vertex
	// rounding slack: the implementation measures distances in float64, whose error is a few
	// ulps of the coordinate magnitude (a vertex 2e-13 off a segment at coordinates ~1e4 is
	// indistinguishable from collinear and is legitimately dropped at tolerance 0)
	slack := 0.0
	for _, p := range in {
		slack = math.Max(slack, math.Max(math.Abs(p.X), math.Abs(p.Y)))
	}
	slack *= 64 * 1.2e-16
	dropped := 0
	for s := 0; s+1 < len(idx); s++ {
		a, b := in[idx[s]], in[idx[s+1]]
		for k := idx[s] + 1; k < idx[s+1]; k++ {
			dropped++
			d := exact.DistPointSeg(gen.EP(in[k]), gen.EP(a), gen.EP(b))
			if shape == "far_vertex" {
				slack = farSlack(in[k], a, b)
			}
			if !(d <= tol*(1+1e-12)+slack) && !math.IsInf(tol, 1) {
				last := "inner"
				if s+2 == len(idx) {
					last = "final-segment"
				}
				c.Violate("tolerance:"+kind+":"+last, fmt.Sprintf("dropped vertex %d is %v away from its replacing segment, tolerance %v", k, d, tol), detail)
				return
			}
		}
	}
	c.Add("dropped_vertices.checked", int64(dropped))
	if simpleIn && kind == "LineString" {
		c.Count("simple_input.judged")
		if ok, i, j := exact.SimplePolyline(gen.EPath(out)); !ok {
			which := "inner-segment"
			if j == len(out)-2 || i == len(out)-2 {
				which = "final-output-segment"
			}
			detail["crossing_output_segments"] = []int{i, j}
			c.Violate("not-simple:"+which, fmt.Sprintf("simple input (%s, %d vertices) simplified to a non-simple line: output segments %d and %d meet (output has %d segments)", shape, n, i, j, len(out)-1), detail)
			return
		}
		if dropped > 0 && n >= 4 {
			h := core.NewHasher()
			gen.HashGeom(h, geom.LineString(in))
			c.Nontrivial(h.F64(tol).Sum())
		}
	}
}

// runBoxwalk is the cheap high-volume phase: a simple line whose vertices are
// drawn uniformly from a box (long segments, spikes and pockets, unlike the
// local steps of simple_walk), often ending inside a pocket formed by three
// earlier consecutive vertices, simplified with a tolerance comparable to the
// box. These are the inputs on which the back-off loop of simplifyCurve
// retreats several times for different reasons in one scan step.
func runBoxwalk(c *core.Ctx, idx int) {
	r := c.R
	n := r.IntRange(6, 40)
	scale := math.Pow(10, r.Range(-1, 2))
	ox, oy := r.Range(-5, 5)*scale, r.Range(-5, 5)*scale
	if r.Chance(0.4) {
		// metre-sized features in degrees (box of 1e-6 .. 1e-3 at a lon/lat position): absolute
		// thresholds inside the intersection tests then bite
		scale = math.Pow(10, r.Range(-6, -3))
		ox, oy = r.Range(-180, 180), r.Range(-85, 85)
		c.Count("boxwalk.degree_scale")
	}
	tail := r.Chance(0.6)
	// a quarter of the walks live on a small integer lattice (rectilinear, gridded or box-clipped
	// data): non-adjacent vertices share an X or a Y, chords and segments are exactly axis-parallel,
	// extents of crossing segments overlap in a zero-width interval. No three vertices collinear.
	lattice := r.Chance(0.25)
	if lattice {
		n = r.IntRange(5, 12)
		scale, ox, oy = float64(r.IntRange(8, 14)), float64(r.IntRange(-20, 20)), float64(r.IntRange(-20, 20))
		tail = false
		c.Count("boxwalk.on_an_integer_lattice")
	}
	pts := make([]geom.Point, 0, n)
	for len(pts) < n {
		ok := false
		for try := 0; try < 40 && !ok; try++ {
			p := geom.Point{X: ox + r.Float64()*scale, Y: oy + r.Float64()*scale}
			if lattice {
				p = geom.Point{X: ox + float64(r.Intn(int(scale)+1)), Y: oy + float64(r.Intn(int(scale)+1))}
			}
			if tail && len(pts) == n-1 {
				k := 1 + r.Intn(len(pts)-3)
				p = geom.Point{X: (pts[k].X+pts[k+1].X+pts[k+2].X)/3 + r.Range(-0.05, 0.05)*scale,
					Y: (pts[k].Y+pts[k+1].Y+pts[k+2].Y)/3 + r.Range(-0.05, 0.05)*scale}
			}
			bad := false
			m := len(pts)
			for i := 0; i+1 < m && !bad; i++ {
				rel := exact.Segments(gen.EP(pts[i]), gen.EP(pts[i+1]), gen.EP(pts[m-1]), gen.EP(p))
				if i == m-2 {
					bad = rel == exact.ProperCross || rel == exact.Overlap || exact.OnSegment(gen.EP(p), gen.EP(pts[i]), gen.EP(pts[i+1])) || exact.OnSegment(gen.EP(pts[i]), gen.EP(pts[m-1]), gen.EP(p))
				} else {
					bad = rel != exact.Disjoint
				}
			}
			for _, q := range pts {
				if q == p {
					bad = true
				}
			}
			if lattice && !bad {
				// (small integers: the cross product is exact)
				for i := 0; i < len(pts) && !bad; i++ {
					for j := 0; j < i; j++ {
						if (pts[i].X-p.X)*(pts[j].Y-p.Y)-(pts[i].Y-p.Y)*(pts[j].X-p.X) == 0 {
							bad = true
							break
						}
					}
				}
			}
			if !bad {
				pts = append(pts, p)
				ok = true
			}
		}
		if !ok {
			break
		}
	}
	if len(pts) < 4 {
		return
	}
	simpleIn, _, _ := exact.SimplePolyline(gen.EPath(pts))
	if !simpleIn {
		c.Count("boxwalk.not_simple_skipped")
		return
	}
	tol := scale * r.Range(0, 0.4)
	if lattice {
		tol = []float64{0.5, 1, 1.5, 2, 3}[r.Intn(5)] * r.Range(0.9, 1.1)
	}
	l := geom.LineString(pts)
	detail := map[string]interface{}{"input": gen.Dump(l), "tolerance": fmt.Sprint(tol), "shape": "boxwalk", "input_is_simple": true}
	c.Eval()
	res := simplifyLine(l, tol)
	c.Add("hook.steps_seen", int64(steps))
	if res.nonTerm {
		c.Violate("non-terminating:len=3", fmt.Sprintf("LineString.Simplify of %d vertices exceeded the bounded-progress limit", len(pts)), detail)
		return
	}
	if res.panicked != nil {
		c.Violate("panic:LineString.Simplify", fmt.Sprintf("LineString.Simplify panicked: %v", core.Trunc(fmt.Sprint(res.panicked), 150)), detail)
		return
	}
	detail["output"] = gen.Dump(geom.LineString(res.out))
	c.Count("boxwalk.simple_judged")
	if tail && len(pts) == n {
		c.Count("boxwalk.tail_returns_into_pocket")
	}
	if len(res.out) < len(pts) {
		c.Count("boxwalk.vertices_dropped")
	}
	judge(c, pts, res.out, tol, "boxwalk", "LineString", true, detail)
}

// judgeRevisit judges a curve in which a vertex value occurs more than once: the output must
// admit SOME order-preserving embedding into the input that keeps the first and the last vertex
// and puts every dropped vertex within the tolerance of the output segment replacing it.
func judgeRevisit(c *core.Ctx, in, out []geom.Point, tol float64, detail map[string]interface{}) {
	n, m := len(in), len(out)
	if m == 0 || m > n {
		c.Violate("not-subsequence:revisit", fmt.Sprintf("output has %d vertices for an input of %d", m, n), detail)
		return
	}
	slack := 0.0
	for _, p := range in {
		slack = math.Max(slack, math.Max(math.Abs(p.X), math.Abs(p.Y)))
	}
	slack *= 64 * 1.2e-16
	within := func(i, j int) bool { // all of in[i+1..j-1] within tol of segment in[i]-in[j]
		if math.IsInf(tol, 1) {
			return true
		}
		for k := i + 1; k < j; k++ {
			if d := exact.DistPointSeg(gen.EP(in[k]), gen.EP(in[i]), gen.EP(in[j])); !(d <= tol*(1+1e-12)+slack) {
				return false
			}
		}
		return true
	}
	// plain[k][j] / good[k][j]: out[..k] embeds with out[k] at input index j (ignoring / respecting the tolerance)
	plain := make([][]bool, m)
	good := make([][]bool, m)
	for k := range plain {
		plain[k], good[k] = make([]bool, n), make([]bool, n)
	}
	if gen.BitsEqual(in[0], out[0]) {
		plain[0][0], good[0][0] = true, true
	}
	for k := 1; k < m; k++ {
		for j := k; j < n; j++ {
			if !gen.BitsEqual(in[j], out[k]) {
				continue
			}
			for i := k - 1; i < j; i++ {
				if plain[k-1][i] {
					plain[k][j] = true
					if good[k-1][i] && !good[k][j] && within(i, j) {
						good[k][j] = true
					}
				}
			}
		}
	}
	c.Count("revisit.judged")
	switch {
	case !plain[m-1][n-1]:
		c.Violate("not-subsequence:revisit", "output is not an order-preserving subsequence of the input that keeps its first and last vertex", detail)
	case !good[m-1][n-1]:
		c.Violate("tolerance:revisit", fmt.Sprintf("no way of matching the output to the input leaves every dropped vertex within the tolerance %v of its replacing segment", tol), detail)
	default:
		if m < n {
			h := core.NewHasher()
			gen.HashGeom(h, geom.LineString(in))
			c.Nontrivial(h.F64(tol).Sum())
		}
	}
}

// farSlack is the rounding allowance of the far_vertex phase for the distance from p to the segment
// a-b: 64 times what that distance changes by when each coordinate of p, a and b moves by one ulp
// of its own (the coordinates are given to no better than that, so no evaluation can be asked for
// more). When p projects into the segment the distance is the one to the line, and an X
// coordinate counts with |uy|, a Y coordinate with |ux| (u the unit vector along the segment): a
// chord between two ends 1e308 apart in X but ordinary in Y is placed as precisely as its Y
// coordinates. Otherwise the distance is the one to an end point, and p and that end count fully.
func farSlack(p, a, b geom.Point) float64 {
	inf := func(q geom.Point) float64 { return math.Max(math.Abs(q.X), math.Abs(q.Y)) }
	if inf(a) > inf(b) {
		a, b = b, a
	}
	const k = 64 * 1.2e-16
	vx, vy, wx, wy := b.X/8-a.X/8, b.Y/8-a.Y/8, p.X/8-a.X/8, p.Y/8-a.Y/8
	l := math.Hypot(vx, vy)
	if l == 0 || math.IsInf(l, 0) || math.IsNaN(l) {
		return k * math.Max(inf(p), inf(a))
	}
	ux, uy := vx/l, vy/l
	if t := wx*ux + wy*uy; t <= 0 {
		return k * math.Max(inf(p), inf(a))
	} else if t >= l {
		return k * math.Max(inf(p), inf(b))
	}
	// (the sums of three ordinates are formed of their eighths: three ordinates of the last binade overflow)
	return 8 * k * ((math.Abs(p.X)/8+math.Abs(a.X)/8+math.Abs(b.X)/8)*math.Abs(uy) + (math.Abs(p.Y)/8+math.Abs(a.Y)/8+math.Abs(b.Y)/8)*math.Abs(ux))
}

// farDist is a float64 estimate of the distance from p to the segment a-b that stays meaningful when
// one end of the segment is astronomically far away (it measures from the nearer end and never squares).
// It only filters inputs; the judgement uses the extended-precision distance.
func farDist(p, a, b geom.Point) float64 {
	if math.Max(math.Abs(a.X), math.Abs(a.Y)) > math.Max(math.Abs(b.X), math.Abs(b.Y)) {
		a, b = b, a
	}
	vx, vy, wx, wy := b.X-a.X, b.Y-a.Y, p.X-a.X, p.Y-a.Y
	m := math.Max(math.Abs(vx), math.Abs(vy))
	if m == 0 || math.IsInf(m, 0) {
		return math.Hypot(wx, wy)
	}
	ux, uy := vx/m, vy/m // direction, components in [-1, 1]
	ul := math.Hypot(ux, uy)
	ux, uy = ux/ul, uy/ul
	t := wx*ux + wy*uy // signed length of the projection
	if t <= 0 {
		return math.Hypot(wx, wy)
	}
	if t >= math.Hypot(vx, vy) {
		return math.Hypot(p.X-b.X, p.Y-b.Y)
	}
	return math.Abs(wx*uy - wy*ux)
}

// runFar is the far_vertex phase: an ordinary simple walk whose first and/or last vertex lies
// astronomically far away.
func runFar(c *core.Ctx, idx int) {
	r := c.R
	n := r.IntRange(3, 12)
	scale := math.Pow(10, r.Range(0, 3))
	tiny := false
	if r.Chance(0.2) {
		// the ordinary part itself tiny: 1e-120 .. 1e-3 next to 1e20 .. 1e300
		// (then only ONE end is far: between two far ends a tiny vertex needs the small component
		// of the unit vector along the chord, which is no float64 any more at a ratio of 1e300)
		scale = math.Pow(10, r.Range(-120, -3))
		tiny = true
		c.Count("far.ordinary_part_tiny")
	}
	far := func() geom.Point {
		h := math.Pow(10, r.Range(20, 300))
		if r.Chance(0.5) {
			h = math.Pow(10, r.Range(155, 300))
		}
		if r.Chance(0.35) && !tiny {
			// the last binades: the difference of two such ordinates of opposite sign is not a
			// float64, and neither is the product of one with an ordinary ordinate above 1
			h = r.Range(0.6e308, 1.79e308)
			if r.Bool() {
				h = math.Pow(10, r.Range(304, 308.2))
			}
			c.Count("far.end_in_the_last_binade")
		}

		sx, sy := 1.0, 1.0
		if r.Chance(0.5) {
			sx = -1
		}
		if r.Chance(0.5) {
			sy = -1
		}
		switch r.Intn(5) {
		case 0:
			return geom.Point{X: r.Range(-1, 1) * scale, Y: sy * h}
		case 1:
			return geom.Point{X: sx * h, Y: r.Range(-1, 1) * scale}
		case 2:
			return geom.Point{X: 0, Y: sy * h}
		case 3:
			return geom.Point{X: sx * h, Y: sy * h}
		}
		return geom.Point{X: sx * h * r.Range(0.1, 1), Y: sy * h * r.Range(0.1, 1)}
	}
	pts := make([]geom.Point, n)
	for i := range pts {
		pts[i] = geom.Point{X: r.Range(-1, 1) * scale, Y: r.Range(-1, 1) * scale}
		if r.Chance(0.3) {
			pts[i] = geom.Point{X: math.Round(pts[i].X), Y: math.Round(pts[i].Y)}
		}
	}
	which := r.Intn(3)
	if tiny {
		which = r.Intn(2)
	}
	if which != 1 {
		pts[0] = far()
	}
	if which != 0 {
		pts[n-1] = far()
	}
	if r.Chance(0.08) && !tiny {
		// both ends in the last binade, on opposite sides: their difference overflows
		h0, h1 := r.Range(0.6e308, 1.79e308), r.Range(0.6e308, 1.79e308)
		if r.Bool() {
			pts[0], pts[n-1] = geom.Point{X: -h0, Y: r.Range(-1, 1) * scale}, geom.Point{X: h1, Y: r.Range(-1, 1) * scale}
		} else {
			pts[0], pts[n-1] = geom.Point{X: r.Range(-1, 1) * scale, Y: h0}, geom.Point{X: r.Range(-1, 1) * scale, Y: -h1}
		}
		if r.Chance(0.6) {
			// three vertices: the chord between the two far ends is the first one tried
			pts = []geom.Point{pts[0], pts[1], pts[n-1]}
			n = 3
		}
		c.Count("far.ends_on_opposite_sides_in_the_last_binade")
	}
	forcedTol := 0.0
	if !tiny && r.Chance(0.15) {
		// aimed at the short cut ACROSS the segment that comes in from the far vertex: A (far away
		// to the left) - B (its ordinary end) - C (far below B's level, left of B) - D (right of B,
		// a little above its level) - E (left of B, above it). C-D-E passes round the tip B; the
		// short cut C-E crosses A-B, and the tolerance is set so that D may go. The whole figure
		// is mirrored or transposed at random.
		sc := math.Pow(10, r.Range(0.5, 3))
		H := r.Range(0.6e308, 1.79e308)
		if r.Bool() {
			H = math.Pow(10, r.Range(300, 308.2))
		}
		ay := r.Range(-0.2, 0.2)
		if r.Chance(0.6) {
			// the window in which exactly ONE of the products H*dy overflows: the ordinary ordinates
			// are of the size of MaxFloat64/H, and the far end is up to 1.5 such units off the level of B
			// (the short cut C-E spans 9..14 sc in Y and its product with H must stay finite, while
			// the far end lies more than MaxFloat64/H above or below C, so that H*(A.y-C.y) does not)
			u := math.MaxFloat64 / H
			sc = u * r.Range(0.001, 0.07)
			ay = u / sc * r.Range(1.1, 30)
			if r.Bool() {
				ay = -ay
			}
			c.Count("far.short_cut_with_products_either_side_of_overflow")
		}
		a := geom.Point{X: -H, Y: sc * ay}
		b := geom.Point{X: sc * r.Range(-0.1, 0.1), Y: sc * r.Range(-0.1, 0.1)}
		cc := geom.Point{X: -sc * r.Range(0.8, 1.2), Y: -sc * r.Range(8, 12)}
		d := geom.Point{X: sc * r.Range(0.5, 1.5), Y: sc * r.Range(0.2, 0.5)}
		e := geom.Point{X: -sc * r.Range(0.5, 1.5), Y: sc * r.Range(0.6, 2)}
		pts = []geom.Point{a, b, cc, d, e}
		n = 5
		forcedTol = exact.DistPointSeg(gen.EP(d), gen.EP(cc), gen.EP(e)) * r.Range(1.02, 1.2)
		mx, my, tr := r.Bool(), r.Bool(), r.Bool()
		for i := range pts {
			if mx {
				pts[i].X = -pts[i].X
			}
			if my {
				pts[i].Y = -pts[i].Y
			}
			if tr {
				pts[i].X, pts[i].Y = pts[i].Y, pts[i].X
			}
		}
		scale = sc
		c.Count("far.short_cut_across_the_far_segment")
	}
	for i := range pts {
		for j := 0; j < i; j++ {
			if pts[i] == pts[j] {
				return
			}
		}
	}
	simpleIn, _, _ := exact.SimplePolyline(gen.EPath(pts))
	if !simpleIn {
		c.Count("far.not_simple_skipped")
		return
	}
	// general position: no three vertices on one line (both ends on the same axis, say)
	for i := range pts {
		for j := 0; j < i; j++ {
			for k := 0; k < j; k++ {
				if exact.Orient(gen.EP(pts[i]), gen.EP(pts[j]), gen.EP(pts[k])) == 0 {
					c.Count("far.collinear_triple_skipped")
					return
				}
			}
		}
	}
	// ... and no vertex within 1e-9 of the ordinary extent of the chord between two others: a chord
	// from the far vertex passes a vertex at 1e-194 without any float64 test being able to tell
	// on which side (seed 6: the output crossed itself 1e-194 deep)
	for i := range pts {
		for j := 0; j < i; j++ {
			for k := range pts {
				if k != i && k != j && farDist(pts[k], pts[i], pts[j]) < 1e-9*scale {
					c.Count("far.vertex_next_to_a_chord_skipped")
					return
				}
			}
		}
	}
	tol := scale * r.Range(0, 0.6)
	if r.Chance(0.1) {
		tol = 0
	}
	if forcedTol > 0 {
		tol = forcedTol
	}
	l := geom.LineString(pts)
	detail := map[string]interface{}{"input": gen.Dump(l), "tolerance": fmt.Sprint(tol), "shape": "far_vertex", "input_is_simple": true}
	c.Eval()
	res := simplifyLine(l, tol)
	c.Add("hook.steps_seen", int64(steps))
	if res.nonTerm {
		c.Violate("non-terminating:far_vertex", fmt.Sprintf("LineString.Simplify of %d vertices exceeded the bounded-progress limit", len(pts)), detail)
		return
	}
	if res.panicked != nil {
		c.Violate("panic:LineString.Simplify", fmt.Sprintf("LineString.Simplify panicked: %v", core.Trunc(fmt.Sprint(res.panicked), 150)), detail)
		return
	}
	detail["output"] = gen.Dump(geom.LineString(res.out))
	c.Count("far.simple_judged")
	if math.Max(math.Max(math.Abs(pts[0].X), math.Abs(pts[0].Y)), math.Max(math.Abs(pts[n-1].X), math.Abs(pts[n-1].Y))) > 1e154 {
		c.Count("far.end_beyond_1e154")
	}
	if len(res.out) < len(pts) {
		c.Count("far.vertices_dropped")
	}
	if len(res.out) > 2 {
		c.Count("far.ordinary_vertex_kept_for_tolerance")
	}
	judge(c, pts, res.out, tol, "far_vertex", "LineString", true, detail)
}

func run(c *core.Ctx, idx int) {
	if c.Phase == "boxwalks" {
		runBoxwalk(c, idx)
		return
	}
	if c.Phase == "far_vertex" {
		runFar(c, idx)
		return
	}
	r := c.R
	maxN := 120
	if c.Thorough() && r.Chance(0.05) {
		maxN = 400
	}
	n := r.IntRange(0, 40)
	switch r.Intn(12) {
	case 0:
		n = r.Intn(4) // 0,1,2,3
	case 1, 2:
		n = r.IntRange(40, maxN)
	}
	curve, shape := genCurve(r, n)
	revisit := false
	if len(curve) >= 4 && r.Chance(0.08) {
		// a line that comes back to one of its own vertices (a spur A-X-A, a pinch, an inner loop):
		// 1-3 copies of earlier vertices inserted at later, non-adjacent positions
		for k := r.IntRange(1, 3); k > 0; k-- {
			a := r.Intn(len(curve) - 2)
			b := r.IntRange(a+2, len(curve))
			if (b < len(curve) && curve[b] == curve[a]) || curve[b-1] == curve[a] {
				continue
			}
			curve = append(curve[:b:b], append([]geom.Point{curve[a]}, curve[b:]...)...)
			revisit = true
		}
		if revisit {
			shape = "revisit:" + shape
			c.Count("shape.revisits_a_vertex")
		}
	}
	n = len(curve)
	if n <= 3 {
		c.Count(fmt.Sprintf("len.%d", n))
	}
	c.Count("shape." + shape)
	diam := 0.0
	for _, p := range curve {
		diam = math.Max(diam, dist(p, curve[0]))
	}
	var tol float64
	switch r.Intn(8) {
	case 0:
		tol = 0
		c.Count("tol.zero")
	case 1:
		tol = 1e-12 * diam
	case 2:
		tol = diam * r.Range(1, 3)
	case 3:
		tol = math.Inf(1)
		c.Count("tol.inf")
	default:
		tol = diam * math.Pow(10, r.Range(-3, 0))
	}
	if tolHint > 0 && !revisit && r.Chance(0.8) {
		tol = tolHint
	}
	simpleIn := false
	if n >= 2 {
		simpleIn, _, _ = exact.SimplePolyline(gen.EPath(curve))
	}
	l := geom.LineString(curve)
	before := gen.DeepCopy(l)
	detail := map[string]interface{}{"input": gen.Dump(l), "tolerance": fmt.Sprint(tol), "shape": shape, "input_is_simple": simpleIn}
	c.Eval()
	res := simplifyLine(l, tol)
	c.Add("hook.steps_seen", int64(steps))
	if res.nonTerm {
		c.Violate(fmt.Sprintf("non-terminating:len=%d", minInt(n, 3)), fmt.Sprintf("LineString.Simplify of %d vertices exceeded the bounded-progress limit (output outgrew the input or > %d loop steps)", n, stepsMax), detail)
		return
	}
	if res.panicked != nil {
		c.Violate("panic:LineString.Simplify", fmt.Sprintf("LineString.Simplify panicked: %v", core.Trunc(fmt.Sprint(res.panicked), 150)), detail)
		return
	}
	detail["output"] = gen.Dump(geom.LineString(res.out))
	if ok, why := gen.SameStructure(before, l); !ok {
		c.Violate("input-modified", "Simplify modified its input: "+why, detail)
	}
	if c.WantSample() && simpleIn && len(res.out) < n && n > 5 {
		c.Sample(map[string]interface{}{"shape": shape, "vertices_in": n, "vertices_out": len(res.out), "tolerance": tol, "first_vertices": gen.Dump(geom.LineString(curve[:5]))})
	}
	if revisit {
		judgeRevisit(c, curve, res.out, tol, detail)
		return
	}
	judge(c, curve, res.out, tol, shape, "LineString", simpleIn, detail)

	// multi-geometries: members are simplified independently
	if r.Chance(0.25) {
		other, _ := genCurve(r, r.IntRange(0, 12))
		ml := geom.MultiLineString{l, geom.LineString(other)}
		if r.Bool() {
			ml[0], ml[1] = ml[1], ml[0]
		}
		c.Eval()
		steps, stepsMax = 0, 4*(n+12)*(n+12)*4+1000
		var got geom.Geom
		d2 := map[string]interface{}{"input": gen.Dump(ml), "tolerance": fmt.Sprint(tol)}
		var arena *gen.Arena
		if r.Bool() {
			// members as consecutive sub-slices of one backing array: an append to a member
			// it was handed would write into the next member
			arena = gen.InArena(ml)
			ml = arena.G.(geom.MultiLineString)
			d2["storage"] = "members are consecutive sub-slices of one backing array"
			c.Count("storage.members_share_one_backing_array")
		}
		rec := core.Try(func() { got = ml.Simplify(tol) })
		if arena != nil {
			if ok, why := arena.Intact(); !ok {
				c.Violate("input-modified:shared-storage:MultiLineString", "MultiLineString.Simplify modified its input: "+why, d2)
			}
		}
		if rec != nil {
			if s, ok := rec.(string); ok && s == sentinel {
				c.Violate("non-terminating:MultiLineString", "MultiLineString.Simplify exceeded the bounded-progress limit", d2)
			} else {
				c.Violate("panic:MultiLineString.Simplify", fmt.Sprintf("MultiLineString.Simplify panicked: %v", core.Trunc(fmt.Sprint(rec), 150)), d2)
			}
		} else {
			c.Count("multi.members_independent")
			gm, ok := got.(geom.MultiLineString)
			if !ok || len(gm) != 2 {
				c.Violate("multi-shape:MultiLineString", fmt.Sprintf("MultiLineString.Simplify returned %T with wrong member count", got), d2)
			} else {
				for i := range ml {
					single := simplifyLine(ml[i], tol)
					if single.out != nil || len(ml[i]) == 0 {
						if ok, why := gen.SameStructure(geom.LineString(single.out), geom.LineString(gm[i])); !ok && !(len(single.out) == 0 && len(gm[i]) == 0) {
							c.Violate("multi-not-independent:MultiLineString", fmt.Sprintf("member %d of the MultiLineString result differs from simplifying it alone: %s", i, why), d2)
						}
					}
				}
			}
		}
	}
	// polygon rings (closed): termination, subsequence/endpoints, tolerance
	if n >= 3 && r.Chance(0.25) {
		ring := append(append(geom.Path{}, curve...), curve[0])
		unclosed := r.Chance(0.4)
		if unclosed {
			ring = ring[: len(ring)-1 : len(ring)-1] // the spelling without the repeated first vertex
			c.Count("polygon.rings_unclosed")
		}
		pg := geom.Polygon{ring}
		var polyIn geom.Geom = pg
		isMulti := r.Bool()
		if isMulti {
			o2, _ := genCurve(r, r.IntRange(3, 10))
			if len(o2) >= 3 {
				polyIn = geom.MultiPolygon{pg, geom.Polygon{append(append(geom.Path{}, o2...), o2[0])}}
			} else {
				polyIn = geom.MultiPolygon{pg}
			}
		}
		c.Eval()
		c.Count("polygon.rings")
		steps, stepsMax = 0, 4*(n+12)*(n+12)*4+1000
		var got geom.Geom
		d2 := map[string]interface{}{"input": gen.Dump(polyIn), "tolerance": fmt.Sprint(tol)}
		var arena *gen.Arena
		if r.Bool() {
			arena = gen.InArena(polyIn)
			polyIn = arena.G
			d2["storage"] = "rings are consecutive sub-slices of one backing array"
			c.Count("storage.members_share_one_backing_array")
		}
		rec := core.Try(func() { got = polyIn.(geom.Simplifier).Simplify(tol) })
		if arena != nil {
			if ok, why := arena.Intact(); !ok {
				c.Violate("input-modified:shared-storage:polygon", "polygon Simplify modified its input: "+why, d2)
			}
		}
		if rec != nil {
			if s, ok := rec.(string); ok && s == sentinel {
				c.Violate("non-terminating:"+fmt.Sprintf("%T", polyIn), "polygon Simplify exceeded the bounded-progress limit", d2)
			} else {
				c.Violate("panic:"+fmt.Sprintf("%T", polyIn)+".Simplify", fmt.Sprintf("Simplify panicked: %v", core.Trunc(fmt.Sprint(rec), 150)), d2)
			}
			return
		}
		var outRing geom.Path
		switch t := got.(type) {
		case geom.Polygon:
			if len(t) == 1 {
				outRing = t[0]
			}
		case geom.MultiPolygon:
			if len(t) >= 1 && len(t[0]) == 1 {
				outRing = t[0][0]
			}
			// members independent
			if in, ok := polyIn.(geom.MultiPolygon); ok && len(t) == len(in) {
				for i := range in {
					var alone geom.Geom
					if core.Try(func() { alone = in[i].Simplify(tol) }) == nil {
						if ok, why := gen.SameStructure(alone, t[i]); !ok {
							c.Violate("multi-not-independent:MultiPolygon", fmt.Sprintf("member %d of the MultiPolygon result differs from simplifying it alone: %s", i, why), d2)
						}
					}
				}
			}
		}
		if outRing == nil {
			c.Violate("multi-shape:polygon", fmt.Sprintf("polygon Simplify returned %T with unexpected nesting", got), d2)
			return
		}
		d2["output"] = gen.Dump(got)
		// a closed ring repeats its first vertex at the end: match as a sequence with that duplicate allowed
		if unclosed {
			judge(c, ring, outRing, tol, shape, "unclosed-ring", false, d2)
		} else {
			judgeRing(c, ring, outRing, tol, d2)
		}
	}
}

// judgeRing checks the subsequence/endpoint/tolerance clauses for a closed ring
// (first vertex repeated last, otherwise distinct).
func judgeRing(c *core.Ctx, in, out []geom.Point, tol float64, detail map[string]interface{}) {
	n := len(in)
	idx := make([]int, 0, len(out))
	j := 0
	for _, p := range out {
		for j < n && !gen.BitsEqual(in[j], p) {
			j++
		}
		if j == n {
			c.Violate("not-subsequence:ring", "ring output is not an order-preserving subsequence of the input ring", detail)
			return
		}
		idx = append(idx, j)
		j++
	}
	if len(idx) < 2 || idx[0] != 0 || idx[len(idx)-1] != n-1 {
		c.Violate("endpoints:ring", "ring output does not keep the first and last vertex", detail)
		return
	}
	slack := 0.0
	for _, p := range in {
		slack = math.Max(slack, math.Max(math.Abs(p.X), math.Abs(p.Y)))
	}
	slack *= 64 * 1.2e-16
	for s := 0; s+1 < len(idx); s++ {
		a, b := in[idx[s]], in[idx[s+1]]
		for k := idx[s] + 1; k < idx[s+1]; k++ {
			d := exact.DistPointSeg(gen.EP(in[k]), gen.EP(a), gen.EP(b))
			if !(d <= tol*(1+1e-12)+slack) && !math.IsInf(tol, 1) {
				c.Violate("tolerance:ring", fmt.Sprintf("dropped ring vertex %d is %v away from its replacing segment, tolerance %v", k, d, tol), detail)
				return
			}
		}
	}
}

func minInt(a, b int) int {
	if a < b {
		return a
	}
	return b
}
