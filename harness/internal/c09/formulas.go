package c09

import "verifharness/internal/core"

func runFormulas(c *core.Ctx) {
	// filled in by refproj.go
	runFormulasImpl(c)
}
