package c09

import (
	"fmt"
	"math"
	"strings"

	"verifharness/internal/core"
	"verifharness/internal/crsgen"
	"verifharness/internal/refproj"
)

const d2r = math.Pi / 180

type numDatum struct {
	ell    refproj.Ell
	hm     refproj.Helmert
	clause string // " +a=… +rf=… [+towgs84=…]" or " +datum=WGS84"
	none   bool
}

func genNumDatum(r *crsgen.R, kind string, noSphere bool) numDatum {
	var d numDatum
	F := crsgen.F
	if kind == "wgs84" {
		d.ell = refproj.Ell{A: 6378137, F: 1 / 298.257223563}
		d.clause = " +datum=WGS84"
		return d
	}
	a := r.Range(6.30e6, 6.40e6)
	// flattening in the range of real ellipsoids: the port's (Snyder's) series are
	// truncated at e^6 and drift past 5 mm for flattenings far from the Earth's
	// (5.9 mm observed for the equidistant conic at 1/f = 256)
	rfLo, rfHi := 290.0, 305.0
	shape := r.Intn(4)
	if noSphere && shape == 0 {
		shape = 2
	}
	switch shape {
	case 0: // sphere
		d.ell = refproj.Ell{A: a, F: 0}
		d.clause = " +a=" + F(a) + " +b=" + F(a)
	case 1: // a + b
		rf := r.Range(rfLo, rfHi)
		b := a * (1 - 1/rf)
		d.ell = refproj.Ell{A: a, F: (a - b) / a}
		d.clause = " +a=" + F(a) + " +b=" + F(b)
	default:
		rf := r.Range(rfLo, rfHi)
		d.ell = refproj.Ell{A: a, F: 1 / rf}
		d.clause = " +a=" + F(a) + " +rf=" + F(rf)
	}
	switch kind {
	case "none":
		d.none = true
	case "towgs84_3", "towgs84_7":
		v := []float64{r.Range(-800, 800), r.Range(-800, 800), r.Range(-800, 800)}
		if kind == "towgs84_7" {
			v = append(v, r.Range(-8, 8), r.Range(-8, 8), r.Range(-8, 8), r.Range(-25, 25))
		}
		p := make([]string, len(v))
		for i := range v {
			p[i] = F(v[i])
		}
		crsgen.SparseTowgs84(r, p) // exact zeros: scale-only, rotation-only, single-term shifts
		for i := range v {
			if p[i] == "0" {
				v[i] = 0
			}
		}
		d.hm = refproj.Helmert{Dx: v[0], Dy: v[1], Dz: v[2], N: len(v)}
		if len(v) == 7 {
			d.hm.Rx, d.hm.Ry, d.hm.Rz, d.hm.S = v[3], v[4], v[5], v[6]
		}
		d.clause += " +towgs84=" + strings.Join(p, ",")
	}
	return d
}

func runFormulasImpl(c *core.Ctx) {
	r := c.R
	F := crsgen.F
	dstKind := []string{"none", "towgs84_3", "towgs84_7", "wgs84"}[r.Intn(4)]
	// projection
	form := []string{"merc_ts", "merc_k", "lcc", "lcc_1sp", "aea", "eqdc", "tmerc", "utm"}[r.Intn(8)]
	// the Krueger series is the ellipsoidal reference; on a sphere proj4js and the port
	// omit the false origin (an inherited quirk on which oracle A is authoritative), so
	// spherical transverse Mercator is left to the proj4js comparison
	noSphere := form == "tmerc" || form == "utm"
	dd := genNumDatum(r, dstKind, noSphere)
	p := refproj.Params{K0: 1}
	lon0 := r.Range(-170, 170)
	p.Lon0 = lon0 * d2r
	p.X0, p.Y0 = r.Range(-3e6, 3e6), r.Range(-3e6, 3e6)
	fo := " +x_0=" + F(p.X0) + " +y_0=" + F(p.Y0)
	// parameters at their PROJ.4 default of zero, written or simply left out
	omitLat0 := false
	if r.Chance(0.12) {
		switch r.Intn(3) {
		case 0:
			p.X0, p.Y0, fo = 0, 0, ""
		case 1:
			p.X0, fo = 0, " +y_0="+F(p.Y0)
		default:
			p.Y0, fo = 0, " +x_0="+F(p.X0)
		}
		omitLat0 = r.Bool()
		c.Count("formulas.default_valued_clauses_omitted")
	}
	var def string
	dlon, latMin, latMax := 170.0, -85.0, 85.0
	var fwd func(refproj.Ell, refproj.Params, float64, float64) (float64, float64)
	switch form {
	case "merc_ts":
		ts := r.Range(-60, 60)
		p.LatTS, p.HasLatTS = ts*d2r, true
		def = "+proj=merc +lon_0=" + F(lon0) + " +lat_ts=" + F(ts) + fo
		fwd = refproj.Mercator
	case "merc_k":
		p.K0 = r.Range(0.5, 1.5)
		def = "+proj=merc +lon_0=" + F(lon0) + " +k_0=" + F(p.K0) + fo
		fwd = refproj.Mercator
	case "lcc", "lcc_1sp", "aea", "eqdc":
		sgn := 1.0
		if r.Bool() {
			sgn = -1
		}
		l1, l2, l0 := r.Range(8, 75), r.Range(8, 75), r.Range(0, 80)
		if math.Abs(l1-l2) < 0.5 {
			l2 = l1 + 2
		}
		name := form
		if form == "lcc_1sp" {
			l2, name = l1, "lcc"
		}
		p.Lat1, p.Lat2, p.Lat0 = sgn*l1*d2r, sgn*l2*d2r, sgn*l0*d2r
		lat0Clause := " +lat_0=" + F(sgn*l0)
		if omitLat0 {
			p.Lat0, lat0Clause = 0, ""
		}
		def = "+proj=" + name + " +lat_1=" + F(sgn*l1) + " +lat_2=" + F(sgn*l2) + lat0Clause + " +lon_0=" + F(lon0)
		if name == "lcc" && r.Bool() {
			p.K0 = r.Range(0.9, 1.1)
			def += " +k_0=" + F(p.K0)
		}
		def += fo
		if sgn > 0 {
			latMin, latMax = 5, 85
		} else {
			latMin, latMax = -85, -5
		}
		if name == "eqdc" {
			// The port's (and proj4js's) meridian-arc series stops at e^6; far from the standard
			// parallels the error of the cone constant is magnified by the cone radius and passes
			// 5 mm (7.7 mm observed 40 deg away). Oracle B therefore judges the equidistant conic
			// within 20 deg of the band of its standard parallels and 60 deg of the central meridian;
			// beyond that only the proj4js comparison applies.
			lo, hi := math.Min(l1, l2)-20, math.Max(l1, l2)+20
			latMin, latMax = sgn*math.Max(lo, 5), sgn*math.Min(hi, 85)
			if latMin > latMax {
				latMin, latMax = latMax, latMin
			}
			dlon = 60
		}
		fwd = map[string]func(refproj.Ell, refproj.Params, float64, float64) (float64, float64){"lcc": refproj.LCC, "aea": refproj.Albers, "eqdc": refproj.EquidistantConic}[name]
	case "tmerc":
		l0 := r.Range(-80, 80)
		p.Lat0, p.K0 = l0*d2r, r.Range(0.9, 1.1)
		lat0Clause := " +lat_0=" + F(l0)
		if omitLat0 {
			p.Lat0, lat0Clause = 0, ""
		}
		def = "+proj=tmerc" + lat0Clause + " +lon_0=" + F(lon0) + " +k_0=" + F(p.K0) + fo
		dlon, latMin, latMax = 3.5, -84, 84
		fwd = refproj.TransverseMercator
	case "utm":
		zone := r.IntRange(1, 60)
		lon0 = float64(6*zone - 183)
		p = refproj.Params{Lon0: lon0 * d2r, K0: 0.9996, X0: 500000}
		def = fmt.Sprintf("+proj=utm +zone=%d", zone)
		dlon, latMin, latMax = 3.5, 0, 84
		if r.Bool() {
			def += " +south"
			p.Y0 = 10000000
			latMin, latMax = -84, 0
		}
		fwd = refproj.TransverseMercator
	}
	toMeter := 1.0
	units := ""
	switch r.Intn(4) {
	case 0:
		units, toMeter = " +units=ft", 0.3048
	case 1:
		units, toMeter = " +units=us-ft", 1200.0/3937.0
	case 2:
		toMeter = r.Range(0.2, 3)
		units = " +to_meter=" + F(toMeter)
	}
	pmDst := 0.0
	pm := ""
	if form != "utm" && r.Chance(0.2) {
		pmDst = r.Range(-30, 30)
		pm = " +pm=" + F(pmDst)
	}
	dst := def + dd.clause + units + pm + " +no_defs"
	// source geographic system
	var sd numDatum
	pmSrc := 0.0
	if dd.none {
		sd = dd
		pmSrc = pmDst
	} else {
		if k := []string{"towgs84_3", "towgs84_7", "wgs84", "same"}[r.Intn(4)]; k == "same" {
			sd = dd
		} else {
			sd = genNumDatum(r, k, false)
		}
		if r.Chance(0.2) {
			pmSrc = r.Range(-30, 30)
		}
	}
	src := "+proj=longlat" + sd.clause
	if pmSrc != 0 {
		src += " +pm=" + F(pmSrc)
	}
	src += " +no_defs"
	label := form + ":" + dstKind
	var pts [][2]float64
	var want []*[2]float64
	for k := 0; k < 4; k++ {
		// position relative to the destination's meridian, then expressed in the source's
		lonD := lon0 + r.Range(-dlon, dlon)
		lat := r.Range(latMin, latMax)
		lonG := lonD + pmDst
		lonS := lonG - pmSrc
		if math.Abs(lonD) > 179.5 || math.Abs(lonG) > 179.5 || math.Abs(lonS) > 179.5 {
			continue
		}
		// reference: one geocentric chain, then the closed-form projection
		lo, la := lonG*d2r, lat*d2r
		if !dd.none {
			// one geocentric chain: to WGS84 with the source parameters, from WGS84 with the
			// destination's (documented first-order inverse) — also when both sides name the
			// same 7-parameter datum, where that chain is not exactly the identity
			lo, la = refproj.Shift(sd.ell, sd.hm, dd.ell, dd.hm, lo, la)
		}
		x, y := fwd(dd.ell, p, lo-pmDst*d2r, la)
		pts = append(pts, [2]float64{lonS, lat})
		want = append(want, &[2]float64{x / toMeter, y / toMeter})
	}
	if len(pts) == 0 {
		return
	}
	got, errs := goTransform(src, dst, pts)
	c.Count("formulas.scenarios." + label)
	h := core.NewHasher().Str(src).Str(dst)
	c.Nontrivial(h.Sum())
	for i := range pts {
		c.Eval()
		c.Count("formulas.points")
		detail := map[string]interface{}{"src": src, "dst": dst, "point": pts[i], "reference": *want[i], "formula": form}
		if got[i] == nil {
			detail["go_error"] = errs[i]
			c.Violate("formula-mismatch:error:"+label, fmt.Sprintf("%s: Go port fails (%s) where the reference formula gives %v", label, core.Trunc(errs[i], 100), *want[i]), detail)
			continue
		}
		detail["go"] = *got[i]
		dx, dy := math.Abs(got[i][0]-want[i][0])*toMeter, math.Abs(got[i][1]-want[i][1])*toMeter
		c.Max("max_diff_m.formulas."+strings.Split(form, "_")[0], math.Max(dx, dy))
		if !(dx <= 0.005 && dy <= 0.005) {
			c.Violate("formula-mismatch:"+label, fmt.Sprintf("%s: Go (%v, %v) vs reference formula (%v, %v): off by (%.3g, %.3g) m, tolerance 5 mm", label, got[i][0], got[i][1], want[i][0], want[i][1], dx, dy), detail)
		}
	}
	if c.WantSample() && !dd.none {
		c.Sample(map[string]interface{}{"src": src, "dst": dst, "points": pts, "reference_formula": form})
	}
}
