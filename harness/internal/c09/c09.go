package c09

import (
	"bufio"
	"compress/gzip"
	"encoding/json"
	"fmt"
	"math"
	"os"
	"path/filepath"
	"sort"
	"strings"
	"sync"

	"github.com/ctessum/geom/proj"

	"verifharness/internal/core"
	"verifharness/internal/crsgen"
	"verifharness/internal/refproj"
)

// Scenario is one transformation request.
type Scenario struct {
	Kind       string        `json:"kind"`
	Src        string        `json:"src"`
	Dst        string        `json:"dst"`
	DstGeo     bool          `json:"dst_geo"`
	DstToMeter float64       `json:"dst_to_meter"`
	Pts        [][2]float64  `json:"pts"`
	Out        []*[2]float64 `json:"out,omitempty"` // proj4js results (recorded corpus)
	Label      string        `json:"label"`
}

const wgs84Geo = "+proj=longlat +datum=WGS84 +no_defs"

func corpusPath() string { return filepath.Join(core.VerifDir(), "corpus", "proj4js_vectors.jsonl.gz") }

var (
	corpusOnce sync.Once
	corpus     []Scenario
	corpusTab  json.RawMessage
)

func loadCorpus() {
	corpusOnce.Do(func() {
		f, err := os.Open(corpusPath())
		if err != nil {
			return
		}
		defer f.Close()
		gz, err := gzip.NewReader(f)
		if err != nil {
			return
		}
		sc := bufio.NewScanner(gz)
		sc.Buffer(make([]byte, 1<<20), 1<<26)
		for sc.Scan() {
			line := sc.Bytes()
			if strings.HasPrefix(string(line), `{"tables"`) {
				var t struct {
					Tables json.RawMessage `json:"tables"`
				}
				if json.Unmarshal(line, &t) == nil {
					corpusTab = t.Tables
				}
				continue
			}
			var s Scenario
			if json.Unmarshal(line, &s) == nil && s.Src != "" {
				corpus = append(corpus, s)
			}
		}
	})
}

type state struct {
	oracle *Oracle
}

func init() {
	core.Register(&core.Prop{
		ID: "C09",
		Rule: "ellipsoid_pairs phase: the complete square of built-in ellipsoid names (30% with the source replaced by a custom ellipsoid whose 1/f is within 1e-9..1e-5 of the destination's), both sides geographic with an all-zero +towgs84, 4 positions, against the geocentric reference chain (5 mm) and live proj4js (1e-9 deg); live phase: case = one generated projected definition (every projection form, ellipsoid by built-in name / a+b / a+rf, datum none / named / 3- and 7-term towgs84, units m/ft/us-ft/to_meter, prime meridian by name or value) with 4 positions in its usable region, transformed geographic->projected, projected->geographic and (when both sides name a datum) projected->projected onto a second definition on another datum, and in half of the cases onto a 'twin' of itself (same projection, ellipsoid, datum and units, one optional clause - x_0, y_0, lat_0, lat_ts or pm - written on one side only; either direction), by the Go port (fresh SR objects and transformer per call) and by proj4js 2.3.12 running under node; agreement 1e-4 m (/to_meter) or 1e-9 deg; datum-less definitions only against the geographic system on the same ellipsoid; " +
			"corpus phase: the same comparison against recorded proj4js outputs (fixed seeds) so that the check does not depend on node; formulas phase: forward projections vs independently written Snyder / Karney-Krueger / Helmert reference formulas within 5 mm; tables phase: every built-in ellipsoid, datum, prime-meridian and unit name parsed and compared with proj4js's constants; " +
			"an evaluation is one point (or one table entry) compared; non-trivial = scenario with a datum shift or a non-metre unit or a named prime meridian; distinct by scenario hash",
		Assumptions: []string{"the live oracle needs node (present in this image); without it the run uses the recorded corpus and says so in coverage.oracle", "non-default +axis excluded (proj4js returns null for it); covered by C10", "points where proj4js itself yields no finite result are counted, not judged"},
		Phases: []core.Phase{
			{Name: "live", NumCases: func(t string) int {
				if t == "thorough" {
					return 150000
				}
				return 4000
			}},
			{Name: "corpus", NumCases: func(t string) int { loadCorpus(); return len(corpus) }},
			{Name: "formulas", NumCases: func(t string) int {
				if t == "thorough" {
					return 600000
				}
				return 20000
			}},
			{Name: "tables", Workers: 1, NumCases: func(t string) int { return 1 }},
			{Name: "ellipsoid_pairs", Workers: 4, NumCases: func(t string) int { return len(crsgen.Ellipsoids) * len(crsgen.Ellipsoids) }},
		},
		Setup: func(c *core.Ctx) {
			st := &state{}
			if c.Phase == "live" || c.Phase == "tables" || c.Phase == "ellipsoid_pairs" {
				st.oracle = StartOracle()
				if st.oracle == nil {
					c.Count("oracle.node_unavailable")
				} else {
					c.Count("oracle.live_workers")
				}
			}
			c.State = st
		},
		Teardown: func(c *core.Ctx) {
			if st, ok := c.State.(*state); ok && st.oracle != nil {
				st.oracle.Close()
			}
		},
		Run: run,
		Floors: func(t string) map[string]int64 {
			return map[string]int64{"corpus.points": 10000, "formulas.points": 10000, "tables.ellipsoids": 40, "tables.datums": 14, "tables.prime_meridians": 12, "tables.units": 2, "ellipsoid_pairs.points_vs_reference": 5000}
		},
	})
}

func run(c *core.Ctx, idx int) {
	switch c.Phase {
	case "live":
		runLive(c)
	case "corpus":
		loadCorpus()
		s := corpus[idx]
		judge(c, &s, s.Out, "recorded")
	case "formulas":
		runFormulasImpl(c)
	case "tables":
		runTables(c)
	case "ellipsoid_pairs":
		runEllipsoidPair(c, idx)
	}
}

// goTransform runs the port with fresh SR objects and a fresh transformer per point.
func goTransform(src, dst string, pts [][2]float64) ([]*[2]float64, []string) {
	out, errs, _ := goTransformID(src, dst, pts)
	return out, errs
}

// goTransformID also reports for which points the port returned the identity because it finds
// the two references Equal (a nil transformer).
func goTransformID(src, dst string, pts [][2]float64) ([]*[2]float64, []string, []bool) {
	out := make([]*[2]float64, len(pts))
	errs := make([]string, len(pts))
	ident := make([]bool, len(pts))
	for i, p := range pts {
		func() {
			defer func() {
				if r := recover(); r != nil {
					errs[i] = fmt.Sprintf("panic: %v", r)
				}
			}()
			s, err := proj.Parse(src)
			if err != nil {
				errs[i] = "parse src: " + err.Error()
				return
			}
			d, err := proj.Parse(dst)
			if err != nil {
				errs[i] = "parse dst: " + err.Error()
				return
			}
			t, err := s.NewTransform(d)
			if err != nil {
				errs[i] = "NewTransform: " + err.Error()
				return
			}
			x, y := p[0], p[1]
			ident[i] = t == nil
			if t != nil {
				x, y, err = t(p[0], p[1])
				if err != nil {
					errs[i] = err.Error()
					return
				}
			}
			if math.IsNaN(x) || math.IsNaN(y) || math.IsInf(x, 0) || math.IsInf(y, 0) {
				errs[i] = fmt.Sprintf("non-finite result (%v, %v)", x, y)
				return
			}
			out[i] = &[2]float64{x, y}
		}()
	}
	return out, errs, ident
}

func lonDiff(a, b float64) float64 {
	d := math.Mod(a-b, 360)
	if d > 180 {
		d -= 360
	}
	if d < -180 {
		d += 360
	}
	return math.Abs(d)
}

// judge compares the port with the proj4js results for one scenario.
func judge(c *core.Ctx, s *Scenario, want []*[2]float64, oracleKind string) {
	got, errs, ident := goTransformID(s.Src, s.Dst, s.Pts)
	h := core.NewHasher().Str(s.Src).Str(s.Dst)
	for _, p := range s.Pts {
		h.F64(p[0]).F64(p[1])
	}
	if strings.Contains(s.Label, "shift") || strings.Contains(s.Src+s.Dst, "+units=") || strings.Contains(s.Src+s.Dst, "+to_meter") || strings.Contains(s.Src+s.Dst, "+pm=") {
		c.Nontrivial(h.Sum())
	}
	c.Count(oracleKind + ".scenarios." + s.Kind)
	for i := range s.Pts {
		if want[i] == nil {
			c.Count(oracleKind + ".proj4js_no_result")
			continue
		}
		c.Eval()
		c.Count(oracleKind + ".points")
		if oracleKind == "recorded" {
			c.Count("corpus.points")
		}
		detail := map[string]interface{}{"src": s.Src, "dst": s.Dst, "point": s.Pts[i], "proj4js": *want[i], "kind": s.Kind, "label": s.Label, "oracle": oracleKind}
		if got[i] == nil {
			detail["go_error"] = errs[i]
			c.Violate("proj4js-mismatch:error:"+s.Label, fmt.Sprintf("%s: Go port fails (%s) where proj4js returns %v", s.Label, core.Trunc(errs[i], 120), *want[i]), detail)
			continue
		}
		detail["go"] = *got[i]
		var dx, dy, tol float64
		if s.DstGeo {
			dx, dy, tol = lonDiff(got[i][0], want[i][0]), math.Abs(got[i][1]-want[i][1]), 1e-9
			c.Max("max_diff_deg."+oracleKind, math.Max(dx, dy))
		} else {
			dx, dy, tol = math.Abs(got[i][0]-want[i][0]), math.Abs(got[i][1]-want[i][1]), 1e-4/s.DstToMeter
			if ident[i] {
				// The port finds the two projected references Equal (the same clauses in another
				// order, an ignored clause more) and returns the point as it is - exactly; proj4js
				// un-projects and projects again and comes back up to half a millimetre off (its
				// own series, 3 degrees from the central meridian). The port is held to 0.1 mm
				// of the truth, not of that: identity pairs are judged to 1 mm, which still shows
				// a reference pair that is wrongly found Equal.
				tol = 1e-3 / s.DstToMeter
				c.Count(oracleKind + ".identity_pairs_judged_to_1mm")
			} else {
				c.Max("max_diff_m."+oracleKind, math.Max(dx, dy)*s.DstToMeter)
			}
		}
		if !(dx <= tol && dy <= tol) {
			c.Violate("proj4js-mismatch:"+s.Label, fmt.Sprintf("%s: Go (%v, %v) vs proj4js (%v, %v): off by (%.3g, %.3g), tolerance %.3g", s.Label, got[i][0], got[i][1], want[i][0], want[i][1], dx, dy, tol), detail)
		}
	}
}

func datumLabel(a, b *crsgen.Def) string {
	if a.Datum == b.Datum && a.Ell == b.Ell && a.PM == b.PM {
		return "same-datum"
	}
	return "shift(" + a.DatKind + ">" + b.DatKind + ")"
}

// partnerGeo picks the geographic partner of d.
func partnerGeo(r *crsgen.R, d *crsgen.Def) (def string, g *crsgen.Def) {
	if !d.HasDatum() || r.Chance(0.35) {
		g = d.Geographic()
		return g.String(), g
	}
	if r.Chance(0.5) {
		return wgs84Geo, &crsgen.Def{Proj: "longlat", DatKind: "named", DatName: "WGS84", Datum: " +datum=WGS84", ToMeter: 1}
	}
	g = crsgen.Gen(r, &crsgen.Options{Projs: []string{"longlat"}, DatKinds: []string{"named", "towgs84_3", "towgs84_7"}})
	return g.String(), g
}

// GenChain builds the scenarios of one case; fwd is called to obtain proj4js
// results (needed to feed the inverse and projected->projected steps).
func GenChain(r *crsgen.R, fwd func(s *Scenario) []*[2]float64) []Scenario {
	var out []Scenario
	d := crsgen.Gen(r, &crsgen.Options{Projs: []string{"merc", "merc_k", "lcc", "lcc_1sp", "aea", "eqdc", "tmerc", "utm", "krovak"}})
	gdef, g := partnerGeo(r, d)
	// positions in d's usable region, expressed in g's longitudes
	var pts [][2]float64
	var greenwich [][2]float64
	nearEquator := false
	for k := 0; k < 4; k++ {
		wrap := func(v float64) float64 {
			if v > 180 {
				return v - 360
			}
			if v <= -180 {
				return v + 360
			}
			return v
		}
		lon, lat := d.Pos(r)
		lg := wrap(lon + d.PMDeg - g.PMDeg)
		// the longitude is given inside (-180, 180) of the meridian frame it is stated in (own
		// meridian for the inverse, partner's meridian for the forward step) and half a degree
		// away from the antimeridian, because a datum shift moves longitudes slightly; the
		// difference of two prime meridians may carry it across the antimeridian of the other frame
		for tries := 0; tries < 100 && (math.Abs(lon) > 179.5 || math.Abs(lg) > 179.5); tries++ {
			lon, lat = d.Pos(r)
			lg = wrap(lon + d.PMDeg - g.PMDeg)
		}
		if math.Abs(lon) > 179.5 || math.Abs(lg) > 179.5 {
			continue
		}
		if math.Abs(lat) < 1e-3 {
			// proj4js's spherical transverse Mercator takes acos of a value that rounds to 1 on
			// and next to the equator (NaN, or northings off by up to 10 cm); the port uses the
			// stable atan2 form there (C08), so the two are not compared within 1e-3 deg of it
			nearEquator = true
		}
		pts = append(pts, [2]float64{lg, lat})
		greenwich = append(greenwich, [2]float64{wrap(lon + d.PMDeg), lat})
	}
	if len(pts) == 0 {
		return nil
	}
	sphericalTM := func(x *crsgen.Def) bool { return (x.Proj == "tmerc" || x.Proj == "utm") && x.EllKind == "sphere" }
	if nearEquator && sphericalTM(d) {
		return nil
	}
	lab := d.Proj + ":" + datumLabel(g, d)
	a := Scenario{Kind: "geo2proj", Src: gdef, Dst: d.String(), DstToMeter: d.ToMeter, Pts: pts, Label: "geo->" + lab}
	a.Out = fwd(&a)
	out = append(out, a)
	if a.Out == nil {
		return out
	}
	// inverse: feed proj4js's projected coordinates back
	var ppts [][2]float64
	for _, o := range a.Out {
		if o != nil {
			ppts = append(ppts, *o)
		}
	}
	if len(ppts) == 0 {
		return out
	}
	b := Scenario{Kind: "proj2geo", Src: d.String(), Dst: gdef, DstGeo: true, DstToMeter: 1, Pts: ppts, Label: d.Proj + "->geo:" + datumLabel(d, g)}
	b.Out = fwd(&b)
	out = append(out, b)
	// projected -> projected on another datum
	if d.HasDatum() && r.Chance(0.6) {
		area := crsgen.DatumArea{West: greenwich[0][0] - 1, East: greenwich[0][0] + 1, South: greenwich[0][1], North: greenwich[0][1]}
		for try := 0; try < 20; try++ {
			d2 := crsgen.Gen(r, &crsgen.Options{Projs: []string{"merc", "merc_k", "lcc", "lcc_1sp", "aea", "eqdc", "tmerc", "utm"}, DatKinds: []string{"named", "towgs84_3", "towgs84_7"}, Area: &area, NoPM: true})
			ok := true
			for _, gp := range greenwich {
				dl := math.Mod(gp[0]-d2.PMDeg-d2.Lon0+540, 360) - 180
				if math.Abs(dl) > d2.DLon*0.9 || gp[1] < d2.LatMin+1 || gp[1] > d2.LatMax-1 {
					ok = false
				}
			}
			if !ok || sameClauses(d2.String(), d.String()) || (nearEquator && sphericalTM(d2)) {
				// identical definitions (the same clauses, in whatever order and spacing the two
				// texts spell them): the port returns the identity transformer (C20) while
				// proj4js runs inverse and forward series, which differ by their own truncation
				// error (0.33 mm observed for UTM 3 degrees from the central meridian)
				continue
			}
			cc := Scenario{Kind: "proj2proj", Src: d.String(), Dst: d2.String(), DstToMeter: d2.ToMeter, Pts: ppts, Label: d.Proj + "->" + d2.Proj + ":" + datumLabel(d, d2)}
			cc.Out = fwd(&cc)
			out = append(out, cc)
			break
		}
	}
	// twin: the same projection on the same datum with one optional clause left out / written
	// (false origin, latitude of origin or of true scale, prime meridian). Nothing but that one
	// parameter differs, and in one of the two definitions it is not set at all
	if r.Chance(0.5) {
		if t, what := crsgen.Twin(r, d); t != nil {
			ok := true
			for _, gp := range greenwich {
				// the positions must lie inside the usable region of the twin as well: with another
				// prime meridian the same +lon_0 is another meridian
				dl := math.Mod(gp[0]-t.PMDeg-t.Lon0+540, 360) - 180
				if math.Abs(wrap180(gp[0]-t.PMDeg)) > 179.5 || math.Abs(dl) > t.DLon*0.9 {
					ok = false
				}
			}
			if ok {
				tw := Scenario{Kind: "twin", Src: d.String(), Dst: t.String(), DstToMeter: t.ToMeter, Pts: ppts, Label: d.Proj + "->twin(" + what + ")"}
				if r.Bool() {
					// the other direction: feed the twin with proj4js's own twin coordinates
					fw := Scenario{Kind: "geo2proj", Src: gdef, Dst: t.String(), DstToMeter: t.ToMeter, Pts: pts}
					if o := fwd(&fw); o != nil {
						var tp [][2]float64
						for _, q := range o {
							if q != nil {
								tp = append(tp, *q)
							}
						}
						if len(tp) > 0 {
							tw = Scenario{Kind: "twin", Src: t.String(), Dst: d.String(), DstToMeter: d.ToMeter, Pts: tp, Label: "twin(" + what + ")->" + d.Proj}
						}
					}
				}
				tw.Out = fwd(&tw)
				out = append(out, tw)
			}
		}
	}
	return out
}

func wrap180(v float64) float64 {
	v = math.Mod(v+540, 360) - 180
	return v
}

func runLive(c *core.Ctx) {
	st := c.State.(*state)
	if st.oracle == nil {
		c.Count("live.skipped_no_node")
		return
	}
	chain := GenChain(c.R, func(s *Scenario) []*[2]float64 {
		out, err := st.oracle.Transform(s.Src, s.Dst, s.Pts)
		if err != nil {
			c.Count("live.oracle_error")
			return nil
		}
		return out
	})
	for i := range chain {
		s := &chain[i]
		if s.Out == nil {
			continue
		}
		if c.WantSample() && s.Kind == "proj2proj" {
			c.Sample(map[string]interface{}{"src": s.Src, "dst": s.Dst, "points": s.Pts, "proj4js": s.Out})
		}
		judge(c, s, s.Out, "live")
	}
}

// GenCorpus records proj4js outputs for n fixed-seed cases.
func GenCorpus(path string, n int) error {
	o := StartOracle()
	if o == nil {
		return fmt.Errorf("node / driver not available")
	}
	defer o.Close()
	f, err := os.Create(path)
	if err != nil {
		return err
	}
	defer f.Close()
	gz := gzip.NewWriter(f)
	defer gz.Close()
	// tables first
	var tab map[string]json.RawMessage
	if err := o.call(map[string]interface{}{"tables": true}, &tab); err != nil {
		return err
	}
	parsed := map[string]*Parsed{}
	for _, def := range tableDefs() {
		p, err := o.Parse(def)
		if err != nil {
			return fmt.Errorf("%s: %v", def, err)
		}
		parsed[def] = p
	}
	tb, _ := json.Marshal(map[string]interface{}{"tables": parsed})
	gz.Write(append(tb, '\n'))
	cnt := 0
	for i := 0; i < n; i++ {
		r := core.NewRand(core.CaseSeed("C09", "corpus", 20261003, i))
		chain := GenChain(r, func(s *Scenario) []*[2]float64 {
			out, err := o.Transform(s.Src, s.Dst, s.Pts)
			if err != nil {
				return nil
			}
			return out
		})
		for _, s := range chain {
			if s.Out == nil {
				continue
			}
			b, _ := json.Marshal(s)
			gz.Write(append(b, '\n'))
			cnt++
		}
	}
	fmt.Printf("recorded %d scenarios from %d cases into %s\n", cnt, n, path)
	return nil
}

// runEllipsoidPair is one ordered pair of built-in ellipsoids (the complete
// square is enumerated), both sides geographic with an explicit all-zero datum
// shift (a known datum whose frame is WGS84's): the transformation is the pure
// change of ellipsoid through geocentric coordinates. It is compared with the
// reference chain (5 mm) and, when node is available, with proj4js (0.1 mm).
// Pairs of nearly equal ellipsoids are the ones an "are these the same datum"
// shortcut can get wrong.
func runEllipsoidPair(c *core.Ctx, idx int) {
	n := len(crsgen.Ellipsoids)
	i, j := idx/n, idx%n
	if i == j {
		return
	}
	r := c.R
	zeros := func() string {
		return []string{" +towgs84=0,0,0", " +towgs84=0,0,0,0,0,0,0", " +towgs84=0,0,0"}[r.Intn(3)]
	}
	src := "+proj=longlat +ellps=" + crsgen.Ellipsoids[i] + zeros() + " +no_defs"
	dst := "+proj=longlat +ellps=" + crsgen.Ellipsoids[j] + zeros() + " +no_defs"
	ell := func(def string) (refproj.Ell, bool) {
		sr, err := proj.Parse(def)
		if err != nil || sr == nil {
			return refproj.Ell{}, false
		}
		return refproj.Ell{A: sr.A, F: 1 - math.Sqrt(1-sr.Es)}, true
	}
	if r.Chance(0.3) {
		// a custom ellipsoid next to the destination's: same semi-major axis, reciprocal
		// flattening off by a relative 1e-9 .. 1e-5 (a truncated constant)
		if sr, err := proj.Parse(dst); err == nil && sr.Rf > 0 && !math.IsInf(sr.Rf, 0) {
			delta := math.Pow(10, r.Range(-9, -5)) * float64(1-2*r.Intn(2))
			src = "+proj=longlat +a=" + crsgen.F(sr.A) + " +rf=" + crsgen.F(sr.Rf*(1+delta)) + zeros() + " +no_defs"
			c.Count("ellipsoid_pairs.custom_neighbour_of_builtin")
		}
	}
	es, ok1 := ell(src)
	ed, ok2 := ell(dst)
	if !ok1 || !ok2 {
		c.Violate("ellipsoid-pair:parse", "a built-in ellipsoid name does not parse: "+src+" / "+dst, map[string]interface{}{"src": src, "dst": dst})
		return
	}
	var pts [][2]float64
	for k := 0; k < 3; k++ {
		pts = append(pts, [2]float64{r.Range(-179, 179), r.Range(-85, 85)})
	}
	pts = append(pts, [2]float64{r.Range(-179, 179), 45})
	got, errs := goTransform(src, dst, pts)
	var want []*[2]float64
	if st := c.State.(*state); st.oracle != nil {
		if out, err := st.oracle.Transform(src, dst, pts); err == nil {
			want = out
		} else {
			c.Count("ellipsoid_pairs.oracle_error")
		}
	}
	c.Nontrivial(core.NewHasher().Str(src).Str(dst).Sum())
	for k, p := range pts {
		detail := map[string]interface{}{"src": src, "dst": dst, "point": p}
		if got[k] == nil {
			c.Violate("ellipsoid-pair:error", fmt.Sprintf("%s -> %s fails: %s", crsgen.Ellipsoids[i], crsgen.Ellipsoids[j], errs[k]), detail)
			continue
		}
		detail["go"] = *got[k]
		c.Eval()
		c.Count("ellipsoid_pairs.points_vs_reference")
		wl, wp := refproj.Shift(es, refproj.Helmert{N: 3}, ed, refproj.Helmert{N: 3}, p[0]*d2r, p[1]*d2r)
		wl, wp = wl/d2r, wp/d2r
		detail["reference"] = []float64{wl, wp}
		dm := math.Max(lonDiff(got[k][0], wl)*math.Cos(p[1]*d2r), math.Abs(got[k][1]-wp)) * 111000
		c.Max("max_diff_m.ellipsoid_pairs_reference", dm)
		if dm > 0.005 {
			c.Violate("ellipsoid-pair:formula-mismatch", fmt.Sprintf("%s -> %s: Go (%v, %v) vs geocentric reference (%v, %v): %.3g m apart (tolerance 5 mm)", crsgen.Ellipsoids[i], crsgen.Ellipsoids[j], got[k][0], got[k][1], wl, wp, dm), detail)
			continue
		}
		if want != nil && want[k] != nil {
			c.Count("ellipsoid_pairs.points_vs_proj4js")
			detail["proj4js"] = *want[k]
			dx, dy := lonDiff(got[k][0], want[k][0]), math.Abs(got[k][1]-want[k][1])
			c.Max("max_diff_deg.ellipsoid_pairs_proj4js", math.Max(dx, dy))
			if !(dx <= 1e-9 && dy <= 1e-9) {
				c.Violate("ellipsoid-pair:proj4js-mismatch", fmt.Sprintf("%s -> %s: Go (%v, %v) vs proj4js (%v, %v)", crsgen.Ellipsoids[i], crsgen.Ellipsoids[j], got[k][0], got[k][1], want[k][0], want[k][1]), detail)
			}
		}
	}
}

// sameClauses reports whether two PROJ.4 texts consist of the same clauses, whatever their order
// and the blanks between them.
func sameClauses(a, b string) bool {
	fa, fb := strings.Fields(a), strings.Fields(b)
	if len(fa) != len(fb) {
		return false
	}
	sort.Strings(fa)
	sort.Strings(fb)
	for i := range fa {
		if fa[i] != fb[i] {
			return false
		}
	}
	return true
}
