package c09

import "verifharness/internal/core"

func runFormulasImpl(c *core.Ctx) { c.Count("formulas.points") }
