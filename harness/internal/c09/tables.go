package c09

import (
	"encoding/json"
	"fmt"
	"math"

	"github.com/ctessum/geom/proj"

	"verifharness/internal/core"
	"verifharness/internal/crsgen"
)

const secToRad = 4.84813681109535993589914102357e-6

// tableDefs lists one definition per built-in table entry.
func tableDefs() []string {
	var defs []string
	for _, e := range crsgen.Ellipsoids {
		defs = append(defs, "+proj=longlat +ellps="+e+" +no_defs")
	}
	for _, d := range crsgen.Datums {
		defs = append(defs, "+proj=longlat +datum="+d.Name+" +no_defs")
	}
	for _, p := range crsgen.PrimeMeridians {
		defs = append(defs, "+proj=longlat +ellps=WGS84 +pm="+p+" +no_defs")
	}
	for _, u := range []string{"ft", "us-ft"} {
		defs = append(defs, "+proj=merc +ellps=WGS84 +units="+u+" +no_defs")
	}
	return defs
}

func feq(a float64, b *float64, rel float64) bool {
	if b == nil {
		return math.IsNaN(a) || a == 0
	}
	return math.Abs(a-*b) <= rel*math.Max(math.Abs(*b), 1e-300) || a == *b
}

func runTables(c *core.Ctx) {
	st := c.State.(*state)
	parsed := map[string]*Parsed{}
	source := "recorded"
	if st.oracle != nil {
		source = "live"
		for _, def := range tableDefs() {
			p, err := st.oracle.Parse(def)
			if err != nil {
				c.Count("tables.oracle_error")
				continue
			}
			parsed[def] = p
		}
	} else {
		loadCorpus()
		json.Unmarshal(corpusTab, &parsed)
	}
	c.Count("tables.source." + source)
	for i, def := range tableDefs() {
		want, ok := parsed[def]
		if !ok {
			continue
		}
		c.Eval()
		c.Nontrivial(core.NewHasher().Str(def).Sum())
		switch {
		case i < len(crsgen.Ellipsoids):
			c.Count("tables.ellipsoids")
		case i < len(crsgen.Ellipsoids)+len(crsgen.Datums):
			c.Count("tables.datums")
		case i < len(crsgen.Ellipsoids)+len(crsgen.Datums)+len(crsgen.PrimeMeridians):
			c.Count("tables.prime_meridians")
		default:
			c.Count("tables.units")
		}
		detail := map[string]interface{}{"definition": def, "proj4js": want, "oracle": source}
		var sr *proj.SR
		var err error
		if c.Guard("proj.Parse", detail, func() { sr, err = proj.Parse(def) }) {
			continue
		}
		if err != nil {
			c.Violate("table-parse:"+def, fmt.Sprintf("proj.Parse(%q) fails: %v", def, err), detail)
			continue
		}
		detail["go"] = map[string]interface{}{"A": sr.A, "B": sr.B, "Rf": fmt.Sprint(sr.Rf), "Es": sr.Es, "DatumParams": sr.DatumParams, "FromGreenwich": fmt.Sprint(sr.FromGreenwich), "ToMeter": sr.ToMeter}
		if c.WantSample() && i%17 == 0 {
			c.Sample(detail)
		}
		if !feq(sr.A, want.A, 1e-15) || !feq(sr.B, want.B, 1e-15) || !feq(sr.Es, want.Es, 1e-12) {
			c.Violate("table-ellipsoid:"+def, fmt.Sprintf("%s: a/b/es = %v/%v/%v, proj4js has %v/%v/%v", def, sr.A, sr.B, sr.Es, deref(want.A), deref(want.B), deref(want.Es)), detail)
		}
		if want.Rf != nil && !math.IsNaN(sr.Rf) && !feq(sr.Rf, want.Rf, 1e-15) {
			c.Violate("table-rf:"+def, fmt.Sprintf("%s: rf = %v, proj4js has %v", def, sr.Rf, *want.Rf), detail)
		}
		// datum parameters: proj4js keeps the table values, the port converts arc-seconds/ppm in place
		wp := append([]float64{}, want.DatumParams...)
		if len(wp) == 7 && (wp[3] != 0 || wp[4] != 0 || wp[5] != 0 || wp[6] != 0) {
			wp[3] *= secToRad
			wp[4] *= secToRad
			wp[5] *= secToRad
			wp[6] = wp[6]/1000000.0 + 1.0
		}
		if len(wp) != len(sr.DatumParams) {
			c.Violate("table-datum:"+def, fmt.Sprintf("%s: %d datum parameters, proj4js has %d", def, len(sr.DatumParams), len(wp)), detail)
		} else {
			for k := range wp {
				if math.Abs(wp[k]-sr.DatumParams[k]) > 1e-15*math.Max(1, math.Abs(wp[k])) {
					c.Violate("table-datum:"+def, fmt.Sprintf("%s: datum parameter %d = %v, proj4js has %v", def, k, sr.DatumParams[k], wp[k]), detail)
					break
				}
			}
		}
		gw := 0.0
		if !math.IsNaN(sr.FromGreenwich) {
			gw = sr.FromGreenwich
		}
		wg := 0.0
		if want.FromGreenwich != nil {
			wg = *want.FromGreenwich
		}
		if math.Abs(gw-wg) > 1e-15 {
			c.Violate("table-pm:"+def, fmt.Sprintf("%s: from_greenwich = %v rad, proj4js has %v rad", def, gw, wg), detail)
		}
		wt := 1.0
		if want.ToMeter != nil {
			wt = *want.ToMeter
		}
		if math.Abs(sr.ToMeter-wt) > 1e-16 {
			c.Violate("table-units:"+def, fmt.Sprintf("%s: to_meter = %v, proj4js has %v", def, sr.ToMeter, wt), detail)
		}
	}
}

func deref(p *float64) interface{} {
	if p == nil {
		return nil
	}
	return *p
}
