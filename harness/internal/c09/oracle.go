// Package c09 monitors property C09: projected coordinates agree with
// proj4js 2.3.12 (live under node, and a recorded corpus) and with
// independent reference formulas; constant tables equal proj4js's.
package c09

import (
	"bufio"
	"encoding/json"
	"fmt"
	"io"
	"os"
	"os/exec"
	"path/filepath"

	"verifharness/internal/core"
)

// Oracle is a running proj4js driver.
type Oracle struct {
	cmd *exec.Cmd
	in  io.WriteCloser
	out *bufio.Reader
	id  int
}

// StartOracle launches node with the driver; it returns nil if node is absent.
func StartOracle() *Oracle {
	node, err := exec.LookPath("node")
	if err != nil {
		if node, err = exec.LookPath("nodejs"); err != nil {
			return nil
		}
	}
	script := filepath.Join(core.VerifDir(), "harness", "js", "p4oracle.js")
	if _, err := os.Stat(script); err != nil {
		return nil
	}
	cmd := exec.Command(node, script)
	in, err := cmd.StdinPipe()
	if err != nil {
		return nil
	}
	out, err := cmd.StdoutPipe()
	if err != nil {
		return nil
	}
	cmd.Stderr = os.Stderr
	if err := cmd.Start(); err != nil {
		return nil
	}
	o := &Oracle{cmd: cmd, in: in, out: bufio.NewReaderSize(out, 1<<20)}
	// probe
	if _, err := o.Transform("+proj=longlat +datum=WGS84", "+proj=merc +datum=WGS84", [][2]float64{{1, 2}}); err != nil {
		o.Close()
		return nil
	}
	return o
}

// Close stops the driver.
func (o *Oracle) Close() {
	if o == nil {
		return
	}
	o.in.Close()
	o.cmd.Wait()
}

func (o *Oracle) call(req map[string]interface{}, resp interface{}) error {
	o.id++
	req["id"] = o.id
	b, _ := json.Marshal(req)
	if _, err := o.in.Write(append(b, '\n')); err != nil {
		return err
	}
	line, err := o.out.ReadBytes('\n')
	if err != nil {
		return err
	}
	return json.Unmarshal(line, resp)
}

// Transform asks proj4js to transform pts from src to dst; a nil entry means
// proj4js produced no finite result for that point.
func (o *Oracle) Transform(src, dst string, pts [][2]float64) ([]*[2]float64, error) {
	var resp struct {
		Out []*[2]float64 `json:"out"`
		Err string        `json:"err"`
	}
	if err := o.call(map[string]interface{}{"src": src, "dst": dst, "pts": pts}, &resp); err != nil {
		return nil, err
	}
	if resp.Err != "" {
		return nil, fmt.Errorf("proj4js: %s", resp.Err)
	}
	if len(resp.Out) != len(pts) {
		return nil, fmt.Errorf("proj4js returned %d results for %d points", len(resp.Out), len(pts))
	}
	return resp.Out, nil
}

// Parsed holds derived fields of one definition as computed by proj4js.
type Parsed struct {
	A, B, Rf, Es  *float64
	DatumParams   []float64 `json:"datum_params"`
	FromGreenwich *float64  `json:"from_greenwich"`
	ToMeter       *float64  `json:"to_meter"`
	K0            *float64  `json:"k0"`
	Sphere        bool      `json:"sphere"`
	Err           string    `json:"err"`
}

// Parse asks proj4js for the derived constants of a definition.
func (o *Oracle) Parse(def string) (*Parsed, error) {
	p := &Parsed{}
	if err := o.call(map[string]interface{}{"parse": def}, p); err != nil {
		return nil, err
	}
	if p.Err != "" {
		return nil, fmt.Errorf("proj4js: %s", p.Err)
	}
	return p, nil
}
