// Package crsgen generates coordinate-reference-system definitions (PROJ.4
// strings, and OGC WKT in wkt.go) with parameters inside each projection's
// documented validity, and positions inside its usable region.
package crsgen

import (
	"math"
	"regexp"
	"strconv"
	"strings"

	"verifharness/internal/core"
)

// R is the PRNG type.
type R = core.Rand

// F prints a float in plain decimal (a PROJ.4 string is split on '+', so
// exponent spellings such as 6.3e+06 are not legal).
func F(v float64) string { return strconv.FormatFloat(v, 'f', -1, 64) }

// Ellipsoids are the built-in ellipsoid names of proj4js 2.3.12.
var Ellipsoids = []string{"MERIT", "SGS85", "GRS80", "IAU76", "airy", "APL4", "NWL9D", "mod_airy", "andrae", "aust_SA", "GRS67", "bessel", "bess_nam",
	"clrk66", "clrk80", "clrk58", "CPM", "delmbr", "engelis", "evrst30", "evrst48", "evrst56", "evrst69", "evrstSS", "fschr60", "fschr60m", "fschr68",
	"helmert", "hough", "intl", "kaula", "lerch", "mprts", "new_intl", "plessis", "krass", "SEasia", "walbeck", "WGS60", "WGS66", "WGS7", "WGS84", "sphere"}

// DatumArea is a built-in datum with an area-of-use box (lon/lat degrees)
// inside which the dropped ellipsoidal height of a 2-D WGS84 round trip is
// negligible.
type DatumArea struct {
	Name                     string
	West, South, East, North float64
}

// Datums lists the built-in datum names with EPSG-style areas of use.
var Datums = []DatumArea{
	{"WGS84", -180, -85, 180, 85},
	{"NAD83", -170, 15, -50, 80},
	{"ch1903", 5.9, 45.8, 10.5, 47.8},
	{"ggrs87", 19.5, 34.8, 28.3, 41.8},
	{"potsdam", 5.9, 47.3, 13.9, 55.1},
	{"carthage", 7.5, 30.2, 11.6, 37.4},
	{"hermannskogel", 9.5, 46.4, 17.2, 49.0},
	{"ire65", -10.6, 51.4, -5.3, 55.4},
	{"rassadiran", 51.8, 27.3, 53.0, 27.9},
	{"nzgd49", 166.4, -47.3, 178.6, -34.1},
	{"osgb36", -8.0, 49.9, 1.8, 60.9},
	{"s_jtsk", 12.1, 47.7, 22.6, 51.1},
	{"beduaram", 7.8, 12.8, 14.9, 16.7},
	{"gunung_segara", 114.5, -4.2, 119.0, 4.3},
	{"rnb72", 2.5, 49.5, 6.4, 51.5},
	{"nad27", -170, 15, -50, 80},
}

// PrimeMeridians are the built-in prime meridian names.
var PrimeMeridians = []string{"greenwich", "lisbon", "paris", "bogota", "madrid", "rome", "bern", "jakarta", "ferro", "brussels", "stockholm", "athens", "oslo"}

// PMDegrees gives the offsets (degrees east of Greenwich) of the named meridians.
var PMDegrees = map[string]float64{"greenwich": 0, "lisbon": -9.131906111111, "paris": 2.337229166667, "bogota": -74.080916666667, "madrid": -3.687938888889,
	"rome": 12.452333333333, "bern": 7.439583333333, "jakarta": 106.807719444444, "ferro": -17.666666666667, "brussels": 4.367975, "stockholm": 18.058277777778,
	"athens": 23.7163375, "oslo": 10.722916666667}

// Def is one generated definition.
type Def struct {
	Proj    string  // longlat, merc, lcc, aea, eqdc, tmerc, utm, krovak
	Params  string  // projection parameters (" +lat_1=… …")
	Ell     string  // ellipsoid clause (" +ellps=…" / " +a=… +b=…" / " +a=… +rf=…" / "")
	EllKind string  // name | ab | arf | sphere | default
	Datum   string  // datum clause ("" / " +datum=…" / " +towgs84=…")
	DatKind string  // none | named | towgs84_3 | towgs84_7
	DatName string  // built-in datum name when DatKind == named
	Units   string  // units clause
	ToMeter float64 // metres per unit
	PM      string  // prime meridian clause
	PMDeg   float64 // offset of the prime meridian in degrees
	Extra   string  // e.g. +axis
	// usable region: longitudes (relative to the definition's own prime meridian) lon0 ± dLon, latitudes [latMin, latMax]
	Lon0, DLon, LatMin, LatMax float64
	A, Rf                      float64 // numeric ellipsoid when known (EllKind ab/arf)
	BothDatum                  bool    // named datum and explicit towgs84 together
	Spelling                   uint64  // non-zero: permuted clause order / irregular blanks
	RA                         bool    // +R_A given
	OmittedDefaults            bool    // some of x_0 / y_0 / lat_0 / lon_0 are zero and not written (or written as 0)
}

// String renders the PROJ.4 definition. When Spelling is non-zero the clauses are
// written in a permuted order with irregular blanks (the meaning of a PROJ.4 string does
// not depend on either); the permutation is a fixed function of Spelling.
func (d *Def) String() string {
	s := "+proj=" + d.Proj + d.Params + d.Ell + d.Datum + d.Units + d.PM + d.Extra + " +no_defs"
	if d.Spelling == 0 || d.BothDatum {
		return s
	}
	parts := strings.Split(s[1:], " +")
	r := core.NewRand(d.Spelling)
	for i := len(parts) - 1; i > 0; i-- {
		j := r.Intn(i + 1)
		parts[i], parts[j] = parts[j], parts[i]
	}
	var b strings.Builder
	for i, p := range parts {
		if i > 0 {
			b.WriteString([]string{" ", "  ", " ", "   "}[r.Intn(4)])
		}
		if strings.HasPrefix(p, "k_0=") && r.Bool() {
			p = "k=" + p[4:] // +k is an alias of +k_0
		}
		b.WriteString("+" + p)
	}
	return b.String()
}

// Geographic returns the geographic system on the same ellipsoid, datum and
// prime meridian.
func (d *Def) Geographic() *Def {
	g := *d
	g.Proj, g.Params, g.Units, g.ToMeter, g.Extra = "longlat", "", "", 1, ""
	return &g
}

// HasDatum reports whether the definition names a datum.
func (d *Def) HasDatum() bool { return d.DatKind != "none" }

// IsGeographic reports whether the definition is a longlat system.
func (d *Def) IsGeographic() bool { return d.Proj == "longlat" }

// Pos draws a position (degrees, relative to the definition's own prime
// meridian) inside the usable region.
func (d *Def) Pos(r *R) (lon, lat float64) {
	lon = d.Lon0 + r.Range(-d.DLon, d.DLon)
	lat = r.Range(d.LatMin, d.LatMax)
	if r.Chance(0.15) {
		// boundary positions: on the central meridian, at the edge of the usable region,
		// on the equator / the limiting parallels
		switch r.Intn(6) {
		case 0:
			lon = d.Lon0
		case 1:
			lon = d.Lon0 + d.DLon*float64(1-2*r.Intn(2))
		case 2:
			lat = []float64{d.LatMin, d.LatMax}[r.Intn(2)]
		case 3:
			if d.LatMin <= 0 && d.LatMax >= 0 {
				lat = 0
			}
		case 4:
			// a hair off the equator / the central meridian (1e-9 .. 1e-4 degrees)
			if d.LatMin <= 0 && d.LatMax >= 0 {
				lat = math.Pow(10, r.Range(-9, -4)) * float64(1-2*r.Intn(2))
			}
		case 5:
			lon = d.Lon0 + math.Pow(10, r.Range(-9, -4))*float64(1-2*r.Intn(2))
		}
	}
	return wrapLon(lon), lat
}

func wrapLon(lon float64) float64 {
	for lon > 180 {
		lon -= 360
	}
	for lon < -180 {
		lon += 360
	}
	return lon
}

func (d *Def) posOld(r *R) (lon, lat float64) {
	lon = d.Lon0 + r.Range(-d.DLon, d.DLon)
	for lon > 180 {
		lon -= 360
	}
	for lon < -180 {
		lon += 360
	}
	lat = r.Range(d.LatMin, d.LatMax)
	return
}

// PosIn draws a position inside the usable region intersected with a box
// given in Greenwich longitudes; ok is false if the intersection is empty.
func (d *Def) PosIn(r *R, a DatumArea) (lon, lat float64, ok bool) {
	for try := 0; try < 50; try++ {
		lonG := r.Range(a.West, a.East)
		lat = r.Range(math.Max(a.South, d.LatMin), math.Min(a.North, d.LatMax))
		if math.Max(a.South, d.LatMin) > math.Min(a.North, d.LatMax) {
			return 0, 0, false
		}
		lon = lonG - d.PMDeg
		dl := math.Mod(lon-d.Lon0+540, 360) - 180
		if math.Abs(dl) <= d.DLon {
			for lon > 180 {
				lon -= 360
			}
			for lon < -180 {
				lon += 360
			}
			return lon, lat, true
		}
	}
	return 0, 0, false
}

// Options steer Gen.
type Options struct {
	Projs        []string // allowed projections (nil = all)
	DatKinds     []string // allowed datum kinds (nil = all four)
	NoPM         bool
	NoUnits      bool
	PlainEll     bool // only named ellipsoids / a+rf (WKT-expressible)
	Area         *DatumArea
	SmallTowgs   bool // random towgs84 limited to |t|<=100 m, |r|<=1", |s|<=2 ppm
	NoBothDatum  bool // never combine a named datum with an explicit towgs84
	NoOmit       bool // never leave out default-valued clauses
	KrovakAnyEll bool // Krovak definitions keep whatever ellipsoid clause was drawn (or none) instead of +ellps=bessel
	AllowRA      bool // +R_A may be added to definitions without a datum (C08 only: under +R_A the port, proj4js and PROJ.4 disagree about Mercator, so there is no oracle for C09, and with a datum shift the 2-D round trip loses the height of the sphere against the ellipsoid)
}

// AllProjs lists the supported projections.
var AllProjs = []string{"longlat", "merc", "merc_k", "lcc", "lcc_1sp", "aea", "eqdc", "tmerc", "utm", "krovak"}

func pick(r *R, xs []string) string { return xs[r.Intn(len(xs))] }

// GenEllDatum fills the ellipsoid, datum, unit and prime-meridian clauses.
func GenEllDatum(r *R, d *Def, o *Options) {
	kinds := o.DatKinds
	if kinds == nil {
		kinds = []string{"none", "named", "towgs84_3", "towgs84_7"}
	}
	d.DatKind = pick(r, kinds)
	// ellipsoid
	ellChoice := r.Intn(10)
	switch {
	case ellChoice < 6:
		name := Ellipsoids[r.Intn(len(Ellipsoids))]
		d.Ell, d.EllKind = " +ellps="+name, "name"
		if name == "sphere" {
			d.EllKind = "sphere"
		}
	case ellChoice < 8 && !o.PlainEll:
		a := r.Range(6.30e6, 6.40e6)
		b := a * (1 - 1/r.Range(250, 350))
		d.Ell, d.EllKind, d.A = " +a="+F(a)+" +b="+F(b), "ab", a
	default:
		a := r.Range(6.30e6, 6.40e6)
		rf := r.Range(250, 350)
		d.Ell, d.EllKind, d.A, d.Rf = " +a="+F(a)+" +rf="+F(rf), "arf", a, rf
	}
	switch d.DatKind {
	case "none":
		d.Datum = ""
	case "named":
		da := Datums[r.Intn(len(Datums))]
		d.DatName = da.Name
		d.Datum = " +datum=" + da.Name
		// a named datum brings its own ellipsoid; an explicit +ellps is overridden, an explicit +a is not
		if r.Bool() || d.EllKind == "ab" || d.EllKind == "arf" {
			d.Ell, d.EllKind = "", "default"
		}
		if r.Chance(0.12) && !o.NoBothDatum {
			// a definition that carries both a named datum and an explicit +towgs84 (in either
			// order): which of the two wins is part of the behaviour of the original
			p := []string{F(r.Range(-100, 100)), F(r.Range(-100, 100)), F(r.Range(-100, 100))}
			if r.Bool() {
				p = append(p, F(r.Range(-1, 1)), F(r.Range(-1, 1)), F(r.Range(-1, 1)), F(r.Range(-2, 2)))
			}
			if r.Bool() {
				d.Datum = d.Datum + " +towgs84=" + strings.Join(p, ",")
			} else {
				d.Datum = " +towgs84=" + strings.Join(p, ",") + d.Datum
			}
			d.BothDatum = true
		}
	case "towgs84_3", "towgs84_7":
		lim, rl, sl := 800.0, 8.0, 25.0
		if o.SmallTowgs {
			lim, rl, sl = 100, 1, 2
		}
		p := []string{F(r.Range(-lim, lim)), F(r.Range(-lim, lim)), F(r.Range(-lim, lim))}
		if d.DatKind == "towgs84_7" {
			p = append(p, F(r.Range(-rl, rl)), F(r.Range(-rl, rl)), F(r.Range(-rl, rl)), F(r.Range(-sl, sl)))
		}
		SparseTowgs84(r, p)
		d.Datum = " +towgs84=" + strings.Join(p, ",")
	}
	// units
	d.ToMeter = 1
	if !o.NoUnits && d.Proj != "longlat" {
		switch r.Intn(6) {
		case 0:
			d.Units, d.ToMeter = " +units=ft", 0.3048
		case 1:
			d.Units, d.ToMeter = " +units=us-ft", 1200.0/3937.0
		case 2:
			tm := r.Range(0.2, 3)
			d.Units, d.ToMeter = " +to_meter="+F(tm), tm
		case 3:
			d.Units = " +units=m"
		}
	}
	// prime meridian
	if !o.NoPM {
		switch r.Intn(8) {
		case 0:
			n := PrimeMeridians[r.Intn(len(PrimeMeridians))]
			d.PM, d.PMDeg = " +pm="+n, PMDegrees[n]
		case 1:
			v := r.Range(-30, 30)
			d.PM, d.PMDeg = " +pm="+F(v), v
		}
	}
}

// SparseTowgs84 sets, in a quarter of the cases, a random subset of the terms
// to exactly zero (scale-only, rotation-only, translation-only, single-term
// and all-zero shifts are boundary cases of the 3-/7-parameter classification).
func SparseTowgs84(r *R, p []string) {
	if !r.Chance(0.25) {
		return
	}
	switch r.Intn(5) {
	case 0: // rotations zero, scale kept
		for i := 3; i < 6 && i < len(p); i++ {
			p[i] = "0"
		}
	case 1: // translations zero
		p[0], p[1], p[2] = "0", "0", "0"
	case 2: // translations and rotations zero: scale only
		for i := 0; i < 6 && i < len(p); i++ {
			p[i] = "0"
		}
	case 3: // a single non-zero term
		keep := r.Intn(len(p))
		for i := range p {
			if i != keep {
				p[i] = "0"
			}
		}
	default: // each term zero with probability 1/2
		for i := range p {
			if r.Bool() {
				p[i] = "0"
			}
		}
	}
}

// Gen draws a definition.
func Gen(r *R, o *Options) *Def {
	if o == nil {
		o = &Options{}
	}
	projs := o.Projs
	if projs == nil {
		projs = AllProjs
	}
	d := &Def{}
	form := pick(r, projs)
	lon0 := r.Range(-180, 180)
	boundary := r.Chance(0.15) // exact special parameter values
	if boundary {
		lon0 = []float64{0, 180, -180, 90, -90, 179.5}[r.Intn(6)]
	}
	if o.Area != nil {
		lon0 = r.Range(o.Area.West, o.Area.East)
	}
	x0, y0 := r.Range(-3e6, 3e6), r.Range(-3e6, 3e6)
	if r.Chance(0.2) || boundary {
		x0, y0 = 0, 0
	}
	fo := " +x_0=" + F(x0) + " +y_0=" + F(y0)
	d.Lon0 = lon0
	switch form {
	case "longlat":
		d.Proj = "longlat"
		d.Lon0, d.DLon, d.LatMin, d.LatMax = 0, 180, -85, 85
	case "merc":
		d.Proj = "merc"
		ts := r.Range(-60, 60)
		if boundary {
			ts = []float64{0, 60, -60}[r.Intn(3)]
		}
		d.Params = " +lon_0=" + F(lon0) + " +lat_ts=" + F(ts) + fo
		d.DLon, d.LatMin, d.LatMax = 170, -85, 85
	case "merc_k":
		d.Proj = "merc"
		k := r.Range(0.5, 1.5)
		if boundary {
			k = 1
		}
		d.Params = " +lon_0=" + F(lon0) + " +k_0=" + F(k) + fo
		d.DLon, d.LatMin, d.LatMax = 170, -85, 85
	case "lcc", "aea", "eqdc", "lcc_1sp":
		d.Proj = form
		south := r.Bool()
		l1, l2 := r.Range(8, 75), r.Range(8, 75)
		if math.Abs(l1-l2) < 0.5 {
			l2 = l1 + 2
		}
		l0 := r.Range(0, 80)
		if boundary {
			l0 = []float64{0, l1, l2, 80}[r.Intn(4)]
		}
		if form == "lcc_1sp" {
			d.Proj = "lcc"
			l2 = l1
			if r.Bool() {
				l0 = l1
			}
		}
		sgn := 1.0
		if south {
			sgn = -1
		}
		k := ""
		if d.Proj == "lcc" && r.Bool() {
			k = " +k_0=" + F(r.Range(0.9, 1.1))
		} else if d.Proj != "lcc" && r.Chance(0.15) {
			// the equal-area and equidistant conics have no scale factor: a +k_0 in their definition
			// is ignored (by the port and by proj4js alike), forwards and backwards
			k = " +k_0=" + F(r.Range(0.9, 1.1))
		}
		d.Params = " +lat_1=" + F(sgn*l1) + " +lat_2=" + F(sgn*l2) + " +lat_0=" + F(sgn*l0) + " +lon_0=" + F(lon0) + k + fo
		d.DLon = 170
		if south {
			d.LatMin, d.LatMax = -85, -5
		} else {
			d.LatMin, d.LatMax = 5, 85
		}
	case "tmerc":
		d.Proj = "tmerc"
		tl0, tk := r.Range(-80, 80), r.Range(0.9, 1.1)
		if boundary {
			tl0, tk = []float64{0, 80, -80}[r.Intn(3)], []float64{1, 0.9996}[r.Intn(2)]
		}
		d.Params = " +lat_0=" + F(tl0) + " +lon_0=" + F(lon0) + " +k_0=" + F(tk) + fo
		d.DLon, d.LatMin, d.LatMax = 3.5, -84, 84
	case "utm":
		d.Proj = "utm"
		zone := r.IntRange(1, 60)
		if boundary {
			zone = []int{1, 60, 30, 31}[r.Intn(4)]
		}
		if o.Area != nil {
			zone = int(math.Floor((lon0+180)/6)) + 1
			if zone < 1 {
				zone = 1
			}
			if zone > 60 {
				zone = 60
			}
		}
		d.Params = " +zone=" + strconv.Itoa(zone)
		d.Lon0 = float64(6*zone - 183)
		d.DLon, d.LatMin, d.LatMax = 3.5, 0, 84
		if r.Bool() {
			d.Params += " +south"
			d.LatMin, d.LatMax = -84, 0
		}
	case "krovak":
		d.Proj = "krovak"
		k := ""
		if r.Bool() {
			k = " +k_0=" + F(r.Range(0.999, 1.0001))
		}
		d.Params = " +lat_0=49.5 +lon_0=24.83333333333333 +alpha=30.28813972222222" + k + " +x_0=0 +y_0=0"
		d.Lon0, d.DLon, d.LatMin, d.LatMax = 17.5, 5.5, 47, 51.5
	}
	GenEllDatum(r, d, o)
	if r.Chance(0.2) {
		d.Spelling = r.Uint64() | 1
	}
	if d.Proj == "utm" || d.Proj == "krovak" {
		// the zone / the Krovak constants are tied to Greenwich longitudes
		d.PM, d.PMDeg = "", 0
	}
	if d.Proj == "krovak" && o.KrovakAnyEll {
		if r.Bool() {
			d.Ell, d.EllKind = "", "default" // no ellipsoid clause at all
		}
	} else if d.Proj == "krovak" {
		// Krovak is defined on the Bessel ellipsoid (the implementation hard-wires it)
		if d.DatKind == "named" {
			d.Datum, d.DatName = " +datum=s_jtsk", "s_jtsk"
			d.Ell, d.EllKind = "", "default"
		} else {
			d.Ell, d.EllKind = " +ellps=bessel", "name"
		}
	}
	if o.AllowRA && d.DatKind == "none" && d.EllKind != "sphere" && d.Proj != "krovak" && r.Chance(0.08) {
		d.Extra += " +R_A" // the sphere of equal surface area instead of the ellipsoid
		d.RA = true
	}
	if !o.NoOmit && (d.Proj == "lcc" || d.Proj == "aea" || d.Proj == "eqdc" || d.Proj == "tmerc" || d.Proj == "merc") && r.Chance(0.12) {
		// parameters at their PROJ.4 default (zero) that are simply not written: false origin,
		// latitude of origin, central meridian (the last only when the caller has not tied the
		// definition to an area); for a one-parallel Lambert also lat_2, which defaults to lat_1
		keys := []string{"x_0", "y_0", "lat_0", "lon_0"}
		if o.Area != nil {
			keys = keys[:3]
		}
		if form == "lcc_1sp" {
			keys = append(keys, "lat_2")
		}
		for _, key := range keys {
			if r.Chance(0.4) {
				continue
			}
			re := clauseRe(key)
			if key == "lat_2" {
				d.Params = re.ReplaceAllString(d.Params, "")
				d.OmittedDefaults = true
				continue
			}
			if !re.MatchString(d.Params) {
				continue
			}
			repl := ""
			if r.Chance(0.3) {
				repl = " +" + key + "=0"
			}
			d.Params = re.ReplaceAllString(d.Params, repl)
			if key == "lon_0" {
				d.Lon0 = 0
			}
			d.OmittedDefaults = true
		}
	}
	return d
}

var clauseRes = func() map[string]*regexp.Regexp {
	m := map[string]*regexp.Regexp{}
	for _, name := range []string{"x_0", "y_0", "lat_0", "lon_0", "lat_2", "lat_ts", "k_0"} {
		m[name] = regexp.MustCompile(` \+` + name + `=[^ ]+`)
	}
	return m
}()

func clauseRe(name string) *regexp.Regexp { return clauseRes[name] }

// Twin returns a copy of d that differs from it in exactly one optional clause:
// a clause d writes is left out (so the parameter takes its default), or a clause d
// leaves out is written with a non-default value. what names the clause. The twin has
// the same projection, ellipsoid, datum and units; nil if no clause qualifies.
func Twin(r *R, d *Def) (t *Def, what string) {
	if d.Proj == "utm" && r.Bool() {
		// the same zone in the other hemisphere's convention (false northing 10 000 km or none)
		c := *d
		if strings.Contains(d.Params, " +south") {
			c.Params = strings.Replace(d.Params, " +south", "", 1)
			return &c, "south:omitted"
		}
		c.Params += " +south"
		return &c, "south:added"
	}
	names := []string{"x_0", "y_0"}
	switch d.Proj {
	case "merc":
		names = append(names, "lat_ts")
	case "lcc", "aea", "eqdc", "tmerc":
		names = append(names, "lat_0")
	}
	names = append(names, "pm")
	name := names[r.Intn(len(names))]
	c := *d
	if name == "pm" {
		if d.PM != "" {
			c.PM, c.PMDeg = "", 0
			return &c, "pm:omitted"
		}
		v := r.Range(-8, 8)
		c.PM, c.PMDeg = " +pm="+F(v), v
		return &c, "pm:added"
	}
	re := clauseRe(name)
	if m := re.FindString(d.Params); m != "" {
		c.Params = re.ReplaceAllString(d.Params, "")
		if v, err := strconv.ParseFloat(m[strings.Index(m, "=")+1:], 64); err == nil && v == 0 {
			// the clause spelled the default: the twin is the same system written differently
			return &c, name + ":default_omitted"
		}
		return &c, name + ":omitted"
	}
	switch name {
	case "x_0", "y_0":
		c.Params += " +" + name + "=" + F(math.Round(r.Range(-2e6, 2e6)))
	case "lat_0":
		c.Params += " +lat_0=" + F(r.Range(-20, 20))
	default:
		return nil, ""
	}
	return &c, name + ":added"
}
