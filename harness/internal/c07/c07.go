// Package c07 monitors property C07: decoders are total on untrusted input —
// a geometry or an error, never a crash, with allocation bounded by the input.
package c07

import (
	"encoding/binary"
	enchex "encoding/hex"
	"encoding/json"
	"fmt"
	"math"
	"runtime"
	"strconv"
	"strings"

	"github.com/ctessum/geom"
	"github.com/ctessum/geom/encoding/geojson"
	"github.com/ctessum/geom/encoding/hex"
	"github.com/ctessum/geom/encoding/wkb"

	"verifharness/internal/c05"
	"verifharness/internal/c06"
	"verifharness/internal/core"
	"verifharness/internal/gen"
	"verifharness/internal/refcodec"
)

// Allocation bound: ΔTotalAlloc(call) <= K*len(input) + C.
const (
	kWKB  = 64
	kJSON = 256
	cFix  = 64 << 10
)

func init() {
	core.Register(&core.Prop{
		ID: "C07",
		Rule: "case = one seed encoding (valid WKB in either/mixed byte order, or a GeoJSON document) together with its mutation family: truncation at every offset, single-bit flips, every count field inflated to {n+1,2n,2^16,2^24,2^28,2^31,2^32-1}, unknown/EWKB type codes, bad byte-order flags, marker floating-point patterns (canonical NaNs, infinities, -0, MaxFloat64) written into one or both ordinates of a vertex, collections nested up to the 64 KiB limit, random byte strings, malformed hex, grammar-generated JSON with arbitrarily shaped coordinates members, wide documents of 255..2049 small members with one malformed position, hand-built Geometry values; every decoder call runs under recover() with heap-allocation accounting (runtime.ReadMemStats TotalAlloc deltas, single goroutine) in a child process with RLIMIT_AS=4GiB; " +
			"an evaluation is one decoder call; non-trivial = mutated/hostile input (distinct by input hash) on which the decoder returned an error or a geometry that survived the re-encode fixpoint",
		Assumptions: []string{"'memory bounded by a constant multiple of the input' is restated as ΔTotalAlloc <= K*len+C with K=64 (WKB, hex), 256 (GeoJSON), C=64KiB", "inputs up to 64 KiB", "hand-built Geometry values: no panic, well-formed result or error, and the re-encode clause whenever they are accepted"},
		Phases: []core.Phase{{Name: "hostile", NumCases: func(t string) int {
			if t == "thorough" {
				return 60000
			}
			return 1600
		}}},
		Run:      run,
		RlimitAS: 4 << 30,
		Floors: func(t string) map[string]int64 {
			return map[string]int64{"wkb.truncated": 1000, "wkb.bitflip": 1000, "wkb.count_inflated": 1000, "wkb.bad_type": 500, "wkb.bad_order": 500, "wkb.deep_nesting": 5, "wkb.deep_nesting_ending_in_a_wrong_member": 50, "wkb.random": 500, "wkb.long_count_bitflip": 1000, "wkb.long_count_wrapped": 500,
				"hex.malformed": 200, "json.grammar": 1000, "json.handbuilt": 200, "handbuilt.typed_slice_at_some_level": 100, "decoded.ok.refixpoint": 1000, "json.deep": 3}
		},
	})
}

var memStats runtime.MemStats

// allocBytes returns the cumulative bytes allocated; ReadMemStats stops the
// world and flushes the per-P allocation caches, so deltas are exact
// (runtime/metrics only accounts at span-refill granularity).
func allocBytes() uint64 {
	runtime.ReadMemStats(&memStats)
	return memStats.TotalAlloc
}

func nameOf(g geom.Geom) string { return fmt.Sprintf("%T", g) }

// wellFormed checks that a decoded geometry has only the seven expected
// dynamic types and no nil members.
func wellFormed(g geom.Geom) string {
	switch t := g.(type) {
	case nil:
		return "nil geometry with nil error"
	case geom.Point, geom.MultiPoint, geom.LineString, geom.MultiLineString, geom.Polygon, geom.MultiPolygon:
		return ""
	case geom.GeometryCollection:
		for i, m := range t {
			if m == nil {
				return fmt.Sprintf("nil member %d in GeometryCollection", i)
			}
			if s := wellFormed(m); s != "" {
				return s
			}
		}
		return ""
	}
	return "unexpected dynamic type " + nameOf(g)
}

type env struct {
	c *core.Ctx
}

// tryWKB runs wkb.Decode on b under the monitors.
func (e *env) tryWKB(family string, b []byte) {
	c := e.c
	c.Eval()
	c.Count("wkb." + family)
	var g geom.Geom
	var err error
	before := allocBytes()
	rec := core.Try(func() { g, err = wkb.Decode(b) })
	delta := allocBytes() - before
	e.judge("wkb.Decode", family, b, len(b), kWKB, rec, g, err, delta)
	if rec == nil && err == nil {
		e.refix(family, b, g)
	}
}

func (e *env) judge(site, family string, in []byte, n int, k uint64, rec interface{}, g geom.Geom, err error, delta uint64) {
	c := e.c
	det := func() map[string]interface{} {
		s := in
		if len(s) > 4096 {
			s = s[:4096]
		}
		return map[string]interface{}{"family": family, "input_len": n, "input_hex_prefix": enchex.EncodeToString(s), "alloc_bytes": delta}
	}
	c.Max("bound_fraction_used."+site, float64(delta)/float64(k*uint64(n)+cFix))
	if n >= 1024 {
		c.Max("alloc_bytes_per_input_byte(n>=1KiB)."+site, float64(delta)/float64(n))
	}
	if rec != nil {
		c.Violate("panic:"+site+":"+family, fmt.Sprintf("%s panicked on %s input (%d bytes): %v", site, family, n, core.Trunc(fmt.Sprint(rec), 150)), det())
		return
	}
	if delta > k*uint64(n)+cFix {
		c.Violate("alloc:"+site+":"+family, fmt.Sprintf("%s allocated %d bytes for a %d-byte %s input (bound %d)", site, delta, n, family, k*uint64(n)+cFix), det())
	}
	if err == nil {
		if s := wellFormed(g); s != "" {
			c.Violate("malformed-result:"+site, fmt.Sprintf("%s returned no error but %s", site, s), det())
		}
	} else {
		if g != nil {
			c.Count("note.geometry_and_error")
		}
		c.Count("decoded.error")
		c.Nontrivial(core.Hash64(in))
	}
}

// refix checks the re-encode fixpoint for a successful WKB decode.
func (e *env) refix(family string, in []byte, g geom.Geom) {
	c := e.c
	if wellFormed(g) != "" {
		return
	}
	for _, bo := range []binary.ByteOrder{wkb.XDR, wkb.NDR} {
		var again geom.Geom
		var err error
		rec := core.Try(func() {
			var enc []byte
			enc, err = wkb.Encode(g, bo)
			if err == nil {
				again, err = wkb.Decode(enc)
			}
		})
		det := map[string]interface{}{"family": family, "input_hex_prefix": enchex.EncodeToString(in[:min(len(in), 2048)]), "decoded": gen.Dump(g)}
		if rec != nil {
			c.Violate("refix-panic:wkb", fmt.Sprintf("re-encoding a decoded geometry panicked: %v", rec), det)
			return
		}
		if err != nil {
			c.Violate("refix-error:wkb", fmt.Sprintf("re-encode/decode of a decoded geometry failed: %v", err), det)
			return
		}
		if ok, why := gen.SameStructure(g, again); !ok {
			c.Violate("refix-differs:wkb", "Decode(Encode(Decode(b))) differs from Decode(b): "+why, det)
			return
		}
	}
	c.Count("decoded.ok.refixpoint")
	c.Nontrivial(core.Hash64(in))
}

func min(a, b int) int {
	if a < b {
		return a
	}
	return b
}

func (e *env) tryHex(family, s string) {
	c := e.c
	c.Eval()
	c.Count("hex." + family)
	var g geom.Geom
	var err error
	before := allocBytes()
	rec := core.Try(func() { g, err = hex.Decode(s) })
	delta := allocBytes() - before
	e.judge("hex.Decode", family, []byte(s), len(s), kWKB, rec, g, err, delta)
	if rec == nil && err == nil && wellFormed(g) == "" {
		rec := core.Try(func() {
			s2, err := hex.Encode(g, wkb.NDR)
			if err != nil {
				c.Violate("refix-error:hex", fmt.Sprintf("hex re-encode failed: %v", err), map[string]interface{}{"input": core.Trunc(s, 2000)})
				return
			}
			g2, err := hex.Decode(s2)
			if err != nil {
				c.Violate("refix-error:hex", fmt.Sprintf("hex re-decode failed: %v", err), map[string]interface{}{"input": core.Trunc(s, 2000)})
				return
			}
			if ok, why := gen.SameStructure(g, g2); !ok {
				c.Violate("refix-differs:hex", "hex fixpoint differs: "+why, map[string]interface{}{"input": core.Trunc(s, 2000)})
			}
		})
		if rec != nil {
			c.Violate("refix-panic:hex", fmt.Sprintf("hex re-encode panicked: %v", rec), map[string]interface{}{"input": core.Trunc(s, 2000)})
		}
		c.Count("decoded.ok.refixpoint")
	}
}

func (e *env) tryJSON(family string, doc []byte) {
	c := e.c
	c.Eval()
	c.Count("json." + family)
	var g geom.Geom
	var err error
	before := allocBytes()
	rec := core.Try(func() { g, err = geojson.Decode(doc) })
	delta := allocBytes() - before
	e.judge("geojson.Decode", family, doc, len(doc), kJSON, rec, g, err, delta)
	if rec == nil && err == nil && wellFormed(g) == "" {
		det := map[string]interface{}{"family": family, "document": core.Trunc(string(doc), 3000), "decoded": gen.Dump(g)}
		rec := core.Try(func() {
			txt, err := geojson.Encode(g)
			if err != nil {
				c.Violate("refix-error:geojson", fmt.Sprintf("re-encoding a decoded geometry failed: %v", err), det)
				return
			}
			g2, err := geojson.Decode(txt)
			if err != nil {
				c.Violate("refix-error:geojson", fmt.Sprintf("decoding the re-encoded geometry failed: %v", err), det)
				return
			}
			if ok, why := gen.SameStructure(g, g2); !ok {
				c.Violate("refix-differs:geojson", "Decode(Encode(Decode(doc))) differs: "+why, det)
			}
		})
		if rec != nil {
			c.Violate("refix-panic:geojson", fmt.Sprintf("re-encoding a decoded geometry panicked: %v", rec), det)
		}
		c.Count("decoded.ok.refixpoint")
		c.Nontrivial(core.Hash64(doc))
	}
}

func (e *env) tryFromGeoJSON(family string, gj *geojson.Geometry) {
	c := e.c
	c.Eval()
	c.Count("json." + family)
	var g geom.Geom
	var err error
	rec := core.Try(func() { g, err = geojson.FromGeoJSON(gj) })
	det := map[string]interface{}{"family": family, "value": core.Trunc(fmt.Sprintf("%#v", gj), 1000)}
	if rec != nil {
		c.Violate("panic:geojson.FromGeoJSON:"+family, fmt.Sprintf("FromGeoJSON panicked: %v", core.Trunc(fmt.Sprint(rec), 150)), det)
		return
	}
	if err == nil {
		if s := wellFormed(g); s != "" {
			c.Violate("malformed-result:geojson.FromGeoJSON", "FromGeoJSON returned no error but "+s, det)
		} else {
			// the re-encode clause holds for Geometry values as for documents
			det["decoded"] = gen.Dump(g)
			rec := core.Try(func() {
				txt, err := geojson.Encode(g)
				if err != nil {
					c.Violate("refix-error:geojson.FromGeoJSON", fmt.Sprintf("re-encoding a geometry that FromGeoJSON accepted failed: %v", err), det)
					return
				}
				g2, err := geojson.Decode(txt)
				if err != nil {
					c.Violate("refix-error:geojson.FromGeoJSON", fmt.Sprintf("decoding the re-encoded geometry failed: %v", err), det)
					return
				}
				if ok, why := gen.SameStructure(g, g2); !ok {
					c.Violate("refix-differs:geojson.FromGeoJSON", "Decode(Encode(FromGeoJSON(v))) differs: "+why, det)
				}
			})
			if rec != nil {
				c.Violate("refix-panic:geojson.FromGeoJSON", fmt.Sprintf("re-encoding a geometry that FromGeoJSON accepted panicked: %v", rec), det)
			}
			c.Count("json.handbuilt.accepted")
		}
	}
	h := core.NewHasher().Str(fmt.Sprintf("%#v", gj))
	c.Nontrivial(h.Sum())
}

var inflations = []func(n uint32) uint32{
	func(n uint32) uint32 { return n + 1 },
	func(n uint32) uint32 { return 2*n + 2 },
	func(n uint32) uint32 { return 1 << 16 },
	func(n uint32) uint32 { return 1 << 24 },
	func(n uint32) uint32 { return 1 << 28 },
	func(n uint32) uint32 { return 1 << 31 },
	func(n uint32) uint32 { return 0xffffffff },
}

func putU32(b []byte, off int, le bool, v uint32) {
	if le {
		binary.LittleEndian.PutUint32(b[off:], v)
	} else {
		binary.BigEndian.PutUint32(b[off:], v)
	}
}

func run(c *core.Ctx, idx int) {
	r := c.R
	e := &env{c: c}
	switch r.Intn(8) {
	case 0, 1, 2, 3:
		e.wkbFamily(r)
	case 4:
		e.wkbSpecial(r)
	case 5:
		e.hexFamily(r)
	default:
		e.jsonFamily(r)
	}
}

func (e *env) wkbFamily(r *gen.R) {
	c := e.c
	g := c05.GenGeom(r, 6, gen.BitsCoord)
	mode := r.Intn(3)
	seed, _ := refcodec.WKB(g, func() bool {
		switch mode {
		case 0:
			return false
		case 1:
			return true
		}
		return r.Bool()
	})
	if len(seed) > 3000 {
		// keep mutation families affordable
		g = geom.GeometryCollection{geom.Point{X: 1, Y: 2}, geom.LineString{{X: 1, Y: 2}, {X: 3, Y: 4}}}
		seed, _ = refcodec.WKB(g, func() bool { return r.Bool() })
	}
	if c.WantSample() {
		c.Sample(map[string]interface{}{"seed_geometry": gen.Dump(g), "seed_hex": enchex.EncodeToString(seed[:min(len(seed), 200)]), "families": "truncate/bitflip/count/type/order"})
	}
	e.tryWKB("valid", seed)
	// truncation at every offset
	for n := 0; n < len(seed); n++ {
		if len(seed) > 600 && r.Intn(len(seed)) > 600 {
			continue
		}
		e.tryWKB("truncated", seed[:n])
	}
	// bit flips
	nbits := len(seed) * 8
	for bit := 0; bit < nbits; bit++ {
		if len(seed) > 200 && r.Intn(nbits) > 1600 {
			continue
		}
		m := append([]byte{}, seed...)
		m[bit/8] ^= 1 << uint(bit%8)
		e.tryWKB("bitflip", m)
	}
	_, fields, _, err := refcodec.ParseWKB(seed)
	if err != nil {
		panic("reference parser rejects its own serializer: " + err.Error())
	}
	// special floating-point patterns written into both ordinates (or one) of a vertex: the
	// values other software uses as markers (IEEE default quiet NaN = PostGIS "POINT EMPTY",
	// Go's NaN, the x86 default NaN, a signalling NaN, infinities, -0, MaxFloat64)
	var coords []refcodec.Field
	for _, f := range fields {
		if f.Kind == refcodec.FCoord {
			coords = append(coords, f)
		}
	}
	for k := 0; k < 8 && len(coords) >= 2; k++ {
		i := 2 * r.Intn(len(coords)/2)
		pat := []uint64{0x7ff8000000000000, 0x7ff8000000000001, 0xfff8000000000000, 0x7ff0000000000001, 0x7ff0000000000000, 0xfff0000000000000, 0x8000000000000000, 0x7fefffffffffffff}[r.Intn(8)]
		m := append([]byte{}, seed...)
		which := r.Intn(4) // 0,1: both ordinates; 2: x only; 3: y only
		for j := 0; j < 2; j++ {
			if which == 2+(1-j) {
				continue
			}
			f := coords[i+j]
			for b := 0; b < 8; b++ {
				sh := uint(8 * b)
				if !f.LE {
					sh = uint(8 * (7 - b))
				}
				m[f.Off+b] = byte(pat >> sh)
			}
		}
		e.tryWKB("special_float", m)
	}
	for _, f := range fields {
		switch f.Kind {
		case refcodec.FCount:
			for _, inf := range inflations {
				m := append([]byte{}, seed...)
				putU32(m, f.Off, f.LE, inf(f.Val))
				e.tryWKB("count_inflated", m)
				// also with the payload cut right after the count
				if r.Chance(0.3) {
					e.tryWKB("count_inflated", m[:f.Off+4])
				}
			}
		case refcodec.FType:
			codes := []uint32{0, 8, 9, 10, 11, 12, 13, 14, 15, 16, 17, 18, 19, 20, 1001, 1003, 2001, 2007, 3001, 3007,
				0x20000001, 0x80000001, 0x40000002, 0xA0000003, f.Val ^ 7, uint32(r.Uint64())}
			for _, code := range codes {
				if r.Chance(0.5) {
					continue
				}
				m := append([]byte{}, seed...)
				putU32(m, f.Off, f.LE, code)
				e.tryWKB("bad_type", m)
			}
			// a legal but different type code (changes the meaning of the payload)
			m := append([]byte{}, seed...)
			putU32(m, f.Off, f.LE, uint32(r.IntRange(1, 7)))
			e.tryWKB("swapped_type", m)
		case refcodec.FOrder:
			for k := 0; k < 6; k++ {
				m := append([]byte{}, seed...)
				m[f.Off] = byte(r.IntRange(2, 255))
				e.tryWKB("bad_order", m)
			}
			m := append([]byte{}, seed...)
			m[f.Off] ^= 1 // the other legal order: payload is now misread
			e.tryWKB("flipped_order", m)
		}
	}
}

func (e *env) wkbSpecial(r *gen.R) {
	// random byte strings
	for k := 0; k < 200; k++ {
		n := r.IntRange(0, 64)
		if r.Chance(0.05) {
			n = r.IntRange(64, 65536)
		}
		b := make([]byte, n)
		for i := range b {
			b[i] = byte(r.Uint64())
		}
		if n > 0 && r.Chance(0.7) {
			b[0] = byte(r.Intn(2))
			if n >= 5 {
				// plausible type code
				putU32(b, 1, b[0] == 1, uint32(r.IntRange(1, 7)))
			}
			if n >= 9 && r.Chance(0.5) {
				putU32(b, 5, b[0] == 1, uint32(r.IntRange(0, 5)))
			}
		}
		e.tryWKB("random", b)
	}
	// collections nested up to the 64 KiB limit
	for _, code := range []uint32{7, 7, 4, 5, 6} {
		le := r.Bool()
		levels := r.IntRange(100, 7200)
		if code != 7 {
			levels = r.IntRange(2, 50)
		}
		// the declared member count of every level: honest (1), or inflated at EVERY level (a
		// reader that reserves per declared member, even capped by the unread input, then reserves
		// that much once per level)
		count := uint32(1)
		if r.Chance(0.5) {
			count = []uint32{2, 300, 20000, 1 << 24, 0xFFFFFFFF}[r.Intn(5)]
		}
		var b []byte
		for i := 0; i < levels && len(b)+9 <= 65536; i++ {
			if le {
				b = append(b, 1)
			} else {
				b = append(b, 0)
			}
			var w [8]byte
			putU32(w[:], 0, le, code)
			putU32(w[:], 4, le, count)
			b = append(b, w[:]...)
			if r.Chance(0.01) {
				le = !le
			}
		}
		// innermost: nothing (truncated), an empty collection, or a multi-geometry holding a member
		// of the wrong type / with an unknown type code / a bad byte-order flag (each makes another
		// kind of error travel back up through all the levels)
		switch r.Intn(4) {
		case 0:
			if len(b)+9 <= 65536 {
				b = append(b, 1, 7, 0, 0, 0, 0, 0, 0, 0)
			}
		case 1:
			if len(b)+9+9 <= 65536 {
				multi := byte(4 + r.Intn(3))                   // MultiPoint, MultiLineString, MultiPolygon
				member := []byte{2, 3, 1, 7, 99, 1}[r.Intn(6)] // a type the multi cannot hold (or can: 1 in a MultiPoint needs 16 more bytes -> EOF)
				order := []byte{1, 1, 1, 9}[r.Intn(4)]
				b = append(b, 1, multi, 0, 0, 0, 1, 0, 0, 0)
				b = append(b, order, member, 0, 0, 0, 0, 0, 0, 0)
				e.c.Count("wkb.deep_nesting_ending_in_a_wrong_member")
			}
		}
		e.c.Max("wkb.nesting_levels", float64(levels))
		e.tryWKB("deep_nesting", b)
	}
	// long point lists (>= 256 points really present): every single-bit flip of every count
	// field and counts of the form k*2^28 + c (a wrapped size check may accept them)
	{
		n := []int{256, 257, 300, 512, 600}[r.Intn(5)]
		pts := make([]geom.Point, n)
		for i := range pts {
			pts[i] = geom.Point{X: float64(i), Y: float64(-i)}
		}
		var g geom.Geom = geom.LineString(pts)
		if r.Bool() {
			g = geom.Polygon{pts[:n-3], pts[n-3:]}
		}
		if r.Chance(0.3) {
			g = geom.GeometryCollection{geom.MultiLineString{pts}}
		}
		seed, _ := refcodec.WKB(g, func() bool { return r.Bool() })
		_, fields, _, _ := refcodec.ParseWKB(seed)
		e.tryWKB("valid", seed)
		for _, f := range fields {
			if f.Kind != refcodec.FCount {
				continue
			}
			for bit := 0; bit < 32; bit++ {
				m := append([]byte{}, seed...)
				putU32(m, f.Off, f.LE, f.Val^(1<<uint(bit)))
				e.tryWKB("long_count_bitflip", m)
			}
			for k := uint32(1); k <= 15; k += uint32(r.IntRange(1, 4)) {
				for _, cc := range []uint32{f.Val, 256, f.Val - 1, 1, 0} {
					m := append([]byte{}, seed...)
					putU32(m, f.Off, f.LE, k<<28+cc)
					e.tryWKB("long_count_wrapped", m)
				}
			}
		}
		// the same through hex
		m := append([]byte{}, seed...)
		for _, f := range fields {
			if f.Kind == refcodec.FCount && f.Val >= 256 {
				putU32(m, f.Off, f.LE, f.Val+1<<28)
				break
			}
		}
		e.tryHex("count_inflated", enchex.EncodeToString(m))
	}
	// wide: many tiny members announced and present
	{
		n := r.IntRange(1000, 3000)
		b := []byte{1, 7, 0, 0, 0}
		var w [4]byte
		putU32(w[:], 0, true, uint32(n))
		b = append(b, w[:]...)
		for i := 0; i < n; i++ {
			b = append(b, 1, 1, 0, 0, 0, 0, 0, 0, 0, 0, 0, 0, 0, 0, 0, 0, 0, 0, 0, 0, 0)
		}
		e.tryWKB("wide", b)
	}
}

func (e *env) hexFamily(r *gen.R) {
	g := c05.GenGeom(r, 4, gen.BitsCoord)
	seed, _ := refcodec.WKB(g, func() bool { return r.Bool() })
	if len(seed) > 2000 {
		seed = seed[:9]
	}
	s := enchex.EncodeToString(seed)
	e.tryHex("valid", s)
	e.tryHex("upper", strings.ToUpper(s))
	for k := 0; k < 60; k++ {
		switch r.Intn(5) {
		case 0: // odd length
			n := r.Intn(len(s) + 1)
			if n%2 == 0 {
				n = (n + 1) % (len(s) + 1)
			}
			e.tryHex("malformed", s[:n])
		case 1: // non-hex rune
			b := []byte(s)
			if len(b) > 0 {
				b[r.Intn(len(b))] = "gGzZ -\x00\xff\n+"[r.Intn(10)]
			}
			e.tryHex("malformed", string(b))
		case 2: // truncated at an even offset
			n := 2 * r.Intn(len(s)/2+1)
			e.tryHex("truncated", s[:n])
		case 3: // inflate a count inside the hex text
			_, fields, _, _ := refcodec.ParseWKB(seed)
			m := append([]byte{}, seed...)
			for _, f := range fields {
				if f.Kind == refcodec.FCount && r.Chance(0.5) {
					putU32(m, f.Off, f.LE, inflations[r.Intn(len(inflations))](f.Val))
					break
				}
			}
			e.tryHex("count_inflated", enchex.EncodeToString(m))
		case 4: // random hex digits
			n := r.IntRange(0, 80)
			b := make([]byte, n)
			for i := range b {
				b[i] = "0123456789abcdefABCDEF"[r.Intn(22)]
			}
			e.tryHex("random", string(b))
		}
	}
	e.tryHex("malformed", "")
	e.tryHex("malformed", "0")
	e.tryHex("malformed", "0x0101000000")
}

var typeNames = []string{"Point", "MultiPoint", "LineString", "MultiLineString", "Polygon", "MultiPolygon", "GeometryCollection", "Feature", "point", "", "Polygon ", "\u0000"}

// randJSONValue emits an arbitrary JSON value.
func randJSONValue(r *gen.R, sb *strings.Builder, depth int) {
	k := r.Intn(10)
	if depth <= 0 && k >= 6 {
		k = r.Intn(6)
	}
	switch k {
	case 0:
		sb.WriteString("null")
	case 1:
		sb.WriteString([]string{"true", "false"}[r.Intn(2)])
	case 2:
		sb.WriteString(randNumber(r))
	case 3:
		sb.WriteString(randNumber(r))
	case 4:
		sb.WriteString(`"` + []string{"", "a", "1", "x y", "\\u0000", "Point"}[r.Intn(6)] + `"`)
	case 5:
		sb.WriteString("[]")
	case 6, 7, 8:
		n := r.Intn(4)
		sb.WriteString("[")
		for i := 0; i < n; i++ {
			if i > 0 {
				sb.WriteString(",")
			}
			randJSONValue(r, sb, depth-1)
		}
		sb.WriteString("]")
	case 9:
		sb.WriteString(`{"a":`)
		randJSONValue(r, sb, depth-1)
		sb.WriteString("}")
	}
}

func randNumber(r *gen.R) string {
	switch r.Intn(8) {
	case 0:
		return "0"
	case 1:
		return "-0"
	case 2:
		return fmt.Sprintf("%d", r.IntRange(-1000, 1000))
	case 3:
		return fmt.Sprintf("%g", r.Range(-180, 180))
	case 4:
		return "1e999"
	case 5:
		return "-1E-999"
	case 6:
		return "123456789012345678901234567890"
	}
	return fmt.Sprintf("%ge%d", r.Range(-9, 9), r.IntRange(-320, 320))
}

// coordsOfDepth emits a well-nested coordinates array of the given depth, with
// occasional ragged / wrong-arity / wrong-type leaves.
func coordsOfDepth(r *gen.R, sb *strings.Builder, depth int, hostile float64) {
	if r.Chance(hostile) {
		randJSONValue(r, sb, 3)
		return
	}
	if depth == 1 {
		n := 2
		if r.Chance(hostile) {
			n = r.Intn(5)
		}
		sb.WriteString("[")
		for i := 0; i < n; i++ {
			if i > 0 {
				sb.WriteString(",")
			}
			sb.WriteString(randNumber(r))
		}
		sb.WriteString("]")
		return
	}
	n := r.IntRange(0, 4)
	sb.WriteString("[")
	for i := 0; i < n; i++ {
		if i > 0 {
			sb.WriteString(",")
		}
		coordsOfDepth(r, sb, depth-1, hostile)
	}
	sb.WriteString("]")
}

func (e *env) jsonFamily(r *gen.R) {
	c := e.c
	// valid seeds and their truncations
	g, _, _ := c06.GenGeom(r, gen.FiniteBitsCoord)
	if txt, err := geojson.Encode(g); err == nil {
		e.tryJSON("valid", txt)
		for n := 0; n < len(txt); n++ {
			if len(txt) > 300 && r.Intn(len(txt)) > 300 {
				continue
			}
			e.tryJSON("truncated", txt[:n])
		}
		for k := 0; k < 100; k++ {
			m := append([]byte{}, txt...)
			m[r.Intn(len(m))] = byte(r.Uint64())
			e.tryJSON("bytesubst", m)
		}
	}
	// wide documents: hundreds to thousands of small members (still below 64 KiB), valid except
	// for ONE position, ring or member that is malformed somewhere in the middle or at the end
	for k := 0; k < 3; k++ {
		ty := []string{"MultiPolygon", "MultiLineString", "MultiPoint", "Polygon", "LineString"}[r.Intn(5)]
		n := []int{255, 256, 257, 1023, 1024, 1025, 1500, 2049}[r.Intn(8)]
		badAt := gen.EdgePos(r, n)
		if r.Chance(0.15) {
			badAt = -1 // no defect at all
		}
		bad := []string{"[1,2,3]", "[1]", "[]", `["1",2]`, "null", "[[1,2]]", "1", "[1,null]", "{}"}[r.Intn(9)]
		var sb strings.Builder
		sb.WriteString(`{"type":"` + ty + `","coordinates":[`)
		for i := 0; i < n; i++ {
			if i > 0 {
				sb.WriteString(",")
			}
			pos := "[" + strconv.Itoa(i%90) + "," + strconv.Itoa(i%80) + "]"
			if i == badAt {
				pos = bad
			}
			switch ty {
			case "MultiPolygon":
				sb.WriteString("[[[0,0],[1,0]," + pos + ",[0,0]]]")
			case "MultiLineString", "Polygon":
				sb.WriteString("[[0,0]," + pos + "]")
			default:
				sb.WriteString(pos)
			}
		}
		sb.WriteString("]}")
		if sb.Len() <= 65536 {
			e.tryJSON("wide_members", []byte(sb.String()))
		}
	}
	// grammar-generated syntactically valid documents
	for k := 0; k < 250; k++ {
		var sb strings.Builder
		ty := typeNames[r.Intn(len(typeNames))]
		depth := r.IntRange(0, 5)
		hostile := []float64{0, 0.05, 0.3}[r.Intn(3)]
		order := r.Intn(4)
		sb.WriteString("{")
		writeType := func() {
			if r.Chance(0.03) {
				sb.WriteString(`"type":` + []string{"1", "null", "[]", "{}"}[r.Intn(4)])
			} else {
				sb.WriteString(`"type":"` + ty + `"`)
			}
		}
		writeCoords := func() {
			sb.WriteString(`"coordinates":`)
			if depth == 0 {
				randJSONValue(r, &sb, 4)
			} else {
				coordsOfDepth(r, &sb, depth, hostile)
			}
		}
		switch order {
		case 0:
			writeType()
			sb.WriteString(",")
			writeCoords()
		case 1:
			writeCoords()
			sb.WriteString(",")
			writeType()
		case 2: // duplicate keys
			writeType()
			sb.WriteString(",")
			writeCoords()
			sb.WriteString(",")
			writeCoords()
			sb.WriteString(`,"type":"` + typeNames[r.Intn(7)] + `"`)
		case 3: // missing member
			if r.Bool() {
				writeType()
			} else {
				writeCoords()
			}
		}
		if r.Chance(0.1) {
			sb.WriteString(`,"bbox":[0,0,1,1],"extra":{"a":[1,2,3]}`)
		}
		sb.WriteString("}")
		doc := sb.String()
		if r.Chance(0.3) {
			// insignificant whitespace between tokens (outside strings)
			var ws strings.Builder
			inStr := false
			for i := 0; i < len(doc); i++ {
				ch := doc[i]
				if ch == '"' && (i == 0 || doc[i-1] != '\\') {
					inStr = !inStr
				}
				ws.WriteByte(ch)
				if !inStr && (ch == ',' || ch == ':' || ch == '[' || ch == '{') && r.Chance(0.5) {
					ws.WriteString([]string{" ", "\n", "\t", "\r\n  "}[r.Intn(4)])
				}
			}
			doc = ws.String()
		}
		e.tryJSON("grammar", []byte(doc))
	}
	// top-level non-objects
	for _, d := range []string{"", "null", "[]", "1", `"Point"`, "{}", `{"type":"Point","coordinates":[1,2]} x`, "\xff\xfe", `[{"type":"Point","coordinates":[1,2]}]`} {
		e.tryJSON("toplevel", []byte(d))
	}
	// very deep nesting
	if r.Chance(0.4) {
		depth := r.IntRange(2000, 12000)
		doc := `{"type":"` + typeNames[r.Intn(7)] + `","coordinates":` + strings.Repeat("[", depth) + "1,2" + strings.Repeat("]", depth) + "}"
		if len(doc) <= 65536 {
			c.Max("json.nesting_levels", float64(depth))
			e.tryJSON("deep", []byte(doc))
		}
	}
	// long flat arrays
	if r.Chance(0.3) {
		n := r.IntRange(1000, 5000)
		doc := `{"type":"` + []string{"Point", "MultiPoint", "LineString"}[r.Intn(3)] + `","coordinates":[` + strings.Repeat("[1,2],", n) + "[1,2]]}"
		e.tryJSON("wide", []byte(doc))
	}
	// hand-built Geometry values (only totality is demanded)
	e.tryFromGeoJSON("handbuilt", nil)
	vals := []interface{}{nil, 1, 1.5, "x", []float64{1, 2}, [][]float64{{1, 2}}, []int{1, 2}, map[string]interface{}{"a": 1},
		[]interface{}{1, 2}, []interface{}{1.0, 2.0}, []interface{}{[]float64{1, 2}}, []interface{}{[]interface{}{1.0, "2"}}, []interface{}{nil},
		[]interface{}{[]interface{}{}}, []interface{}{[]interface{}{[]interface{}{}}}, []interface{}{[]interface{}{[]interface{}{[]interface{}{}}}},
		[]interface{}{[]interface{}{1.0, 2.0}, []interface{}{1.0}}, struct{}{}, geom.Point{X: 1, Y: 2}, []geom.Point{{X: 1, Y: 2}}}
	for k := 0; k < 40; k++ {
		e.tryFromGeoJSON("handbuilt", &geojson.Geometry{Type: typeNames[r.Intn(len(typeNames))], Coordinates: vals[r.Intn(len(vals))]})
	}
	// well-shaped trees of []interface{} as a JSON decoder would build them, but with numbers a
	// document cannot hold (NaN, infinities, -0) or of other numeric types, and type strings in
	// another case or with padding
	num := func() interface{} {
		switch r.Intn(12) {
		case 0:
			return math.NaN()
		case 1:
			return math.Inf(1)
		case 2:
			return math.Inf(-1)
		case 3:
			return math.Copysign(0, -1)
		case 4:
			return int(r.IntRange(-5, 5))
		case 5:
			return float32(r.Range(-5, 5))
		case 6:
			return json.Number("1.5")
		}
		return r.Range(-180, 180)
	}
	// typed slices, as ToGeoJSON builds them, mixed in at any level (the decoder may or may not
	// accept them; if it does, the result must still be well-formed and re-encodable)
	fnum := func() float64 {
		switch r.Intn(8) {
		case 0:
			return math.NaN()
		case 1:
			return math.Inf(1 - 2*r.Intn(2))
		case 2:
			return math.Copysign(0, -1)
		}
		return r.Range(-180, 180)
	}
	var typed func(depth int) interface{}
	typed = func(depth int) interface{} {
		n := r.IntRange(1, 3)
		switch depth {
		case 0:
			return []float64{fnum(), fnum()}
		case 1:
			o := make([][]float64, n)
			for i := range o {
				o[i] = typed(0).([]float64)
			}
			return o
		case 2:
			o := make([][][]float64, n)
			for i := range o {
				o[i] = typed(1).([][]float64)
			}
			return o
		}
		o := make([][][][]float64, n)
		for i := range o {
			o[i] = typed(2).([][][]float64)
		}
		return o
	}
	var tree func(depth int) interface{}
	tree = func(depth int) interface{} {
		if r.Chance(0.12) {
			c.Count("handbuilt.typed_slice_at_some_level")
			return typed(depth)
		}
		if depth == 0 {
			return []interface{}{num(), num()}
		}
		n := r.IntRange(1, 3)
		o := make([]interface{}, n)
		for i := range o {
			o[i] = tree(depth - 1)
		}
		return o
	}
	depthOf := map[string]int{"Point": 0, "MultiPoint": 1, "LineString": 1, "MultiLineString": 2, "Polygon": 2, "MultiPolygon": 3}
	for k := 0; k < 40; k++ {
		ty := []string{"Point", "MultiPoint", "LineString", "MultiLineString", "Polygon", "MultiPolygon"}[r.Intn(6)]
		name := ty
		switch r.Intn(8) {
		case 0:
			name = strings.ToLower(ty)
		case 1:
			name = " " + ty
		case 2:
			name = ty + " "
		case 3:
			name = strings.ToUpper(ty)
		}
		e.tryFromGeoJSON("handbuilt", &geojson.Geometry{Type: name, Coordinates: tree(depthOf[ty])})
	}
}
