package refcodec

import (
	"fmt"
	"strconv"
	"strings"

	"github.com/ctessum/geom"
)

// ParseWKT is a strict recursive-descent parser of the OGC simple-features
// well-known-text grammar for 2-D POINT, LINESTRING, POLYGON, MULTILINESTRING
// and MULTIPOLYGON (also MULTIPOINT and GEOMETRYCOLLECTION so that wrong
// keywords are diagnosed rather than mis-parsed).
func ParseWKT(s string) (geom.Geom, error) {
	p := &wktp{s: s}
	g, err := p.geometry()
	if err != nil {
		return nil, err
	}
	p.ws()
	if p.i != len(p.s) {
		return nil, p.errf("trailing text")
	}
	return g, nil
}

type wktp struct {
	s string
	i int
}

func (p *wktp) errf(f string, a ...interface{}) error {
	return fmt.Errorf("wkt offset %d: %s", p.i, fmt.Sprintf(f, a...))
}

func (p *wktp) ws() {
	for p.i < len(p.s) && (p.s[p.i] == ' ' || p.s[p.i] == '\t' || p.s[p.i] == '\n' || p.s[p.i] == '\r') {
		p.i++
	}
}

func (p *wktp) expect(c byte) error {
	p.ws()
	if p.i >= len(p.s) || p.s[p.i] != c {
		return p.errf("expected %q", string(c))
	}
	p.i++
	return nil
}

func (p *wktp) peek() byte {
	p.ws()
	if p.i >= len(p.s) {
		return 0
	}
	return p.s[p.i]
}

func (p *wktp) keyword() string {
	p.ws()
	st := p.i
	for p.i < len(p.s) && ((p.s[p.i] >= 'A' && p.s[p.i] <= 'Z') || (p.s[p.i] >= 'a' && p.s[p.i] <= 'z')) {
		p.i++
	}
	return strings.ToUpper(p.s[st:p.i])
}

// number parses a signed numeric literal: [+-]? (digits [. digits*] | . digits) ([eE] [+-]? digits)?
func (p *wktp) number() (float64, error) {
	p.ws()
	st := p.i
	if p.i < len(p.s) && (p.s[p.i] == '+' || p.s[p.i] == '-') {
		p.i++
	}
	nd := 0
	for p.i < len(p.s) && p.s[p.i] >= '0' && p.s[p.i] <= '9' {
		p.i++
		nd++
	}
	if p.i < len(p.s) && p.s[p.i] == '.' {
		p.i++
		for p.i < len(p.s) && p.s[p.i] >= '0' && p.s[p.i] <= '9' {
			p.i++
			nd++
		}
	}
	if nd == 0 {
		return 0, p.errf("expected a number")
	}
	if p.i < len(p.s) && (p.s[p.i] == 'e' || p.s[p.i] == 'E') {
		p.i++
		if p.i < len(p.s) && (p.s[p.i] == '+' || p.s[p.i] == '-') {
			p.i++
		}
		ne := 0
		for p.i < len(p.s) && p.s[p.i] >= '0' && p.s[p.i] <= '9' {
			p.i++
			ne++
		}
		if ne == 0 {
			return 0, p.errf("malformed exponent")
		}
	}
	f, err := strconv.ParseFloat(p.s[st:p.i], 64)
	if err != nil {
		return 0, p.errf("number %q: %v", p.s[st:p.i], err)
	}
	return f, nil
}

func (p *wktp) point() (geom.Point, error) {
	x, err := p.number()
	if err != nil {
		return geom.Point{}, err
	}
	if p.i >= len(p.s) || (p.s[p.i] != ' ' && p.s[p.i] != '\t') {
		return geom.Point{}, p.errf("expected blank between x and y")
	}
	y, err := p.number()
	if err != nil {
		return geom.Point{}, err
	}
	return geom.Point{X: x, Y: y}, nil
}

// pointList parses "( x y , x y … )".
func (p *wktp) pointList() ([]geom.Point, error) {
	if err := p.expect('('); err != nil {
		return nil, err
	}
	var o []geom.Point
	for {
		pt, err := p.point()
		if err != nil {
			return nil, err
		}
		o = append(o, pt)
		if p.peek() == ',' {
			p.i++
			continue
		}
		break
	}
	return o, p.expect(')')
}

func (p *wktp) pointLists() ([][]geom.Point, error) {
	if err := p.expect('('); err != nil {
		return nil, err
	}
	var o [][]geom.Point
	for {
		l, err := p.pointList()
		if err != nil {
			return nil, err
		}
		o = append(o, l)
		if p.peek() == ',' {
			p.i++
			continue
		}
		break
	}
	return o, p.expect(')')
}

func (p *wktp) geometry() (geom.Geom, error) {
	kw := p.keyword()
	switch kw {
	case "POINT":
		if err := p.expect('('); err != nil {
			return nil, err
		}
		pt, err := p.point()
		if err != nil {
			return nil, err
		}
		return pt, p.expect(')')
	case "LINESTRING":
		l, err := p.pointList()
		return geom.LineString(l), err
	case "POLYGON":
		ls, err := p.pointLists()
		if err != nil {
			return nil, err
		}
		pg := make(geom.Polygon, len(ls))
		for i, l := range ls {
			pg[i] = l
		}
		return pg, nil
	case "MULTILINESTRING":
		ls, err := p.pointLists()
		if err != nil {
			return nil, err
		}
		m := make(geom.MultiLineString, len(ls))
		for i, l := range ls {
			m[i] = l
		}
		return m, nil
	case "MULTIPOLYGON":
		if err := p.expect('('); err != nil {
			return nil, err
		}
		var m geom.MultiPolygon
		for {
			ls, err := p.pointLists()
			if err != nil {
				return nil, err
			}
			pg := make(geom.Polygon, len(ls))
			for i, l := range ls {
				pg[i] = l
			}
			m = append(m, pg)
			if p.peek() == ',' {
				p.i++
				continue
			}
			break
		}
		return m, p.expect(')')
	}
	return nil, p.errf("unknown or unsupported keyword %q", kw)
}
