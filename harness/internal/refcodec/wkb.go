// Package refcodec holds independent reference serializers/parsers used as
// oracles: an OGC 06-103r4 WKB writer/reader, an OGC WKT parser and a GeoJSON
// shape checker. None of this code is derived from the packages under test.
package refcodec

import (
	"errors"
	"fmt"
	"math"

	"github.com/ctessum/geom"
)

// OrderFn picks the byte order (true = little endian/NDR) of the next element.
type OrderFn func() bool

type wbuf struct{ b []byte }

func (w *wbuf) u32(v uint32, le bool) {
	if le {
		w.b = append(w.b, byte(v), byte(v>>8), byte(v>>16), byte(v>>24))
	} else {
		w.b = append(w.b, byte(v>>24), byte(v>>16), byte(v>>8), byte(v))
	}
}

func (w *wbuf) f64(f float64, le bool) {
	v := math.Float64bits(f)
	if le {
		for i := 0; i < 8; i++ {
			w.b = append(w.b, byte(v>>(8*uint(i))))
		}
	} else {
		for i := 7; i >= 0; i-- {
			w.b = append(w.b, byte(v>>(8*uint(i))))
		}
	}
}

func (w *wbuf) header(code uint32, le bool) {
	if le {
		w.b = append(w.b, 1)
	} else {
		w.b = append(w.b, 0)
	}
	w.u32(code, le)
}

func (w *wbuf) pts(p []geom.Point, le bool) {
	w.u32(uint32(len(p)), le)
	for _, q := range p {
		w.f64(q.X, le)
		w.f64(q.Y, le)
	}
}

// WKB serializes g in the OGC simple-features WKB layout. Every nested
// element gets its own byte-order flag, chosen by order().
func WKB(g geom.Geom, order OrderFn) ([]byte, error) {
	w := &wbuf{}
	if err := w.geom(g, order); err != nil {
		return nil, err
	}
	return w.b, nil
}

func (w *wbuf) geom(g geom.Geom, order OrderFn) error {
	le := order()
	switch t := g.(type) {
	case geom.Point:
		w.header(1, le)
		w.f64(t.X, le)
		w.f64(t.Y, le)
	case geom.LineString:
		w.header(2, le)
		w.pts(t, le)
	case geom.Polygon:
		w.header(3, le)
		w.u32(uint32(len(t)), le)
		for _, r := range t {
			w.pts(r, le)
		}
	case geom.MultiPoint:
		w.header(4, le)
		w.u32(uint32(len(t)), le)
		for _, p := range t {
			if err := w.geom(p, order); err != nil {
				return err
			}
		}
	case geom.MultiLineString:
		w.header(5, le)
		w.u32(uint32(len(t)), le)
		for _, l := range t {
			if err := w.geom(l, order); err != nil {
				return err
			}
		}
	case geom.MultiPolygon:
		w.header(6, le)
		w.u32(uint32(len(t)), le)
		for _, l := range t {
			if err := w.geom(l, order); err != nil {
				return err
			}
		}
	case geom.GeometryCollection:
		w.header(7, le)
		w.u32(uint32(len(t)), le)
		for _, l := range t {
			if err := w.geom(l, order); err != nil {
				return err
			}
		}
	default:
		return fmt.Errorf("refwkb: unsupported %T", g)
	}
	return nil
}

// FieldKind labels a region of a WKB encoding.
type FieldKind int

// Field kinds.
const (
	FOrder FieldKind = iota
	FType
	FCount
	FCoord
)

// Field is one labelled region of an encoding (used by the C07 mutator).
type Field struct {
	Kind FieldKind
	Off  int
	LE   bool
	Val  uint32
}

// ParseWKB is an independent strict reader. It returns the geometry, the
// labelled fields and the number of bytes consumed.
func ParseWKB(b []byte) (geom.Geom, []Field, int, error) {
	p := &rbuf{b: b}
	g, err := p.geom(0)
	return g, p.fields, p.off, err
}

type rbuf struct {
	b      []byte
	off    int
	fields []Field
}

var errShort = errors.New("refwkb: short input")

func (r *rbuf) u32(le bool, kind FieldKind) (uint32, error) {
	if r.off+4 > len(r.b) {
		return 0, errShort
	}
	b := r.b[r.off:]
	var v uint32
	if le {
		v = uint32(b[0]) | uint32(b[1])<<8 | uint32(b[2])<<16 | uint32(b[3])<<24
	} else {
		v = uint32(b[3]) | uint32(b[2])<<8 | uint32(b[1])<<16 | uint32(b[0])<<24
	}
	r.fields = append(r.fields, Field{Kind: kind, Off: r.off, LE: le, Val: v})
	r.off += 4
	return v, nil
}

func (r *rbuf) f64(le bool) (float64, error) {
	if r.off+8 > len(r.b) {
		return 0, errShort
	}
	b := r.b[r.off:]
	var v uint64
	for i := 0; i < 8; i++ {
		if le {
			v |= uint64(b[i]) << (8 * uint(i))
		} else {
			v |= uint64(b[7-i]) << (8 * uint(i))
		}
	}
	r.fields = append(r.fields, Field{Kind: FCoord, Off: r.off, LE: le})
	r.off += 8
	return math.Float64frombits(v), nil
}

func (r *rbuf) pts(le bool) ([]geom.Point, error) {
	n, err := r.u32(le, FCount)
	if err != nil {
		return nil, err
	}
	if int64(n)*16 > int64(len(r.b)-r.off) {
		return nil, errShort
	}
	o := make([]geom.Point, n)
	for i := range o {
		o[i].X, _ = r.f64(le)
		o[i].Y, _ = r.f64(le)
	}
	return o, nil
}

func (r *rbuf) geom(depth int) (geom.Geom, error) {
	if r.off >= len(r.b) {
		return nil, errShort
	}
	ob := r.b[r.off]
	if ob > 1 {
		return nil, fmt.Errorf("refwkb: bad byte order %d", ob)
	}
	le := ob == 1
	r.fields = append(r.fields, Field{Kind: FOrder, Off: r.off, LE: le, Val: uint32(ob)})
	r.off++
	code, err := r.u32(le, FType)
	if err != nil {
		return nil, err
	}
	switch code {
	case 1:
		x, err := r.f64(le)
		if err != nil {
			return nil, err
		}
		y, err := r.f64(le)
		if err != nil {
			return nil, err
		}
		return geom.Point{X: x, Y: y}, nil
	case 2:
		p, err := r.pts(le)
		return geom.LineString(p), err
	case 3:
		n, err := r.u32(le, FCount)
		if err != nil {
			return nil, err
		}
		if int64(n)*4 > int64(len(r.b)-r.off) {
			return nil, errShort
		}
		pg := make(geom.Polygon, n)
		for i := range pg {
			if pg[i], err = r.pts(le); err != nil {
				return nil, err
			}
		}
		return pg, nil
	case 4, 5, 6, 7:
		n, err := r.u32(le, FCount)
		if err != nil {
			return nil, err
		}
		if int64(n)*5 > int64(len(r.b)-r.off) {
			return nil, errShort
		}
		ms := make([]geom.Geom, n)
		for i := range ms {
			if ms[i], err = r.geom(depth + 1); err != nil {
				return nil, err
			}
		}
		switch code {
		case 4:
			o := make(geom.MultiPoint, n)
			for i, m := range ms {
				p, ok := m.(geom.Point)
				if !ok {
					return nil, fmt.Errorf("refwkb: %T in MultiPoint", m)
				}
				o[i] = p
			}
			return o, nil
		case 5:
			o := make(geom.MultiLineString, n)
			for i, m := range ms {
				p, ok := m.(geom.LineString)
				if !ok {
					return nil, fmt.Errorf("refwkb: %T in MultiLineString", m)
				}
				o[i] = p
			}
			return o, nil
		case 6:
			o := make(geom.MultiPolygon, n)
			for i, m := range ms {
				p, ok := m.(geom.Polygon)
				if !ok {
					return nil, fmt.Errorf("refwkb: %T in MultiPolygon", m)
				}
				o[i] = p
			}
			return o, nil
		}
		return geom.GeometryCollection(ms), nil
	}
	return nil, fmt.Errorf("refwkb: unsupported type code %d", code)
}
