// Package c04 monitors property C04: bounds are tight envelopes, vertex
// enumeration is complete and ordered, and the box algebra is a lattice.
package c04

import (
	"fmt"
	"math"
	"reflect"

	"github.com/ctessum/geom"

	"verifharness/internal/core"
	"verifharness/internal/gen"
)

func init() {
	core.Register(&core.Prop{
		ID: "C04",
		Rule: "case = one random geometry of the 8 types (1.2% carry one long path of 63..65537 vertices - lengths on both sides of 64, 256, 1024, 4096, 8192, 16384, 65536 - whose unique X/Y extreme sits at the first/last few positions or next to n/4, n/2, 3n/4 or a power of two; empty members first/last/in runs, collections nested to depth 4 (3%: chains nested 5-10 deep with members before and after the nested one at every level), coordinates from a pool with -0, ±Inf, ±MaxFloat64, subnormals) judged by Points/Len/Bounds against the harness flattening and min/max fold, " +
			"or one pair/triple of boxes judged against the lattice laws; non-trivial = geometry containing at least one empty member next to a non-empty one, or a box pair that touches/overlaps/nests/is separated on exactly one axis; distinct by content hash",
		Assumptions: []string{"NaN coordinates excluded (min/max of NaN is outside the property)", "an empty box is any box for which Min exceeds Max on an axis (the canonical NewBounds one, and 6% of the random boxes otherwise)"},
		Phases: []core.Phase{
			{Name: "geoms", NumCases: func(t string) int {
				if t == "thorough" {
					return 2000000
				}
				return 60000
			}},
			{Name: "boxes", NumCases: func(t string) int {
				if t == "thorough" {
					return 1000000
				}
				return 40000
			}},
		},
		Run: run,
		Floors: func(t string) map[string]int64 {
			return map[string]int64{"geom.with_empty_member": 1000, "geom.empty_run>=2": 100, "geom.empty_collection": 50, "box.touching": 100, "box.empty_operand": 100, "box.sep_one_axis": 100, "box.extreme_extent": 500, "box.pair_meeting_at_an_infinity": 300, "geom.long_path": 200, "geom.collections_nested_5_to_10_deep": 500, "storage.paths_share_one_backing_array": 3000, "geom.long_path>=4096": 60,
				"type.Point": 10, "type.MultiPoint": 10, "type.LineString": 10, "type.MultiLineString": 10, "type.Polygon": 10, "type.MultiPolygon": 10, "type.GeometryCollection": 10, "type.*Bounds": 10, "geom.empty_box_as_geometry_or_member": 300}
		},
	})
}

var specials = []float64{math.Copysign(0, -1), 0, math.Inf(1), math.Inf(-1), math.MaxFloat64, -math.MaxFloat64,
	math.SmallestNonzeroFloat64, -math.SmallestNonzeroFloat64, 1, -1, 2.5}

func coord(r *gen.R) float64 {
	if r.Chance(0.2) {
		return specials[r.Intn(len(specials))]
	}
	if r.Chance(0.5) {
		return float64(r.IntRange(-5, 5))
	}
	return r.Range(-1000, 1000)
}

func run(c *core.Ctx, idx int) {
	if c.Phase == "geoms" {
		runGeom(c)
	} else {
		runBoxes(c)
	}
}

func typeName(g geom.Geom) string {
	return reflect.TypeOf(g).String()[len("geom."):]
}

func tn(g geom.Geom) string {
	s := reflect.TypeOf(g).String()
	if s == "*geom.Bounds" {
		return "*Bounds"
	}
	return s[len("geom."):]
}

// emptiness statistics: (has an empty member adjacent to content, longest run of empty members)
func emptyStats(g geom.Geom) (hasEmpty bool, maxRun int, emptyColl bool) {
	runOf := func(lens []int) {
		run := 0
		for _, l := range lens {
			if l == 0 {
				run++
				hasEmpty = true
				if run > maxRun {
					maxRun = run
				}
			} else {
				run = 0
			}
		}
	}
	switch t := g.(type) {
	case geom.MultiLineString:
		var l []int
		for _, m := range t {
			l = append(l, len(m))
		}
		runOf(l)
	case geom.Polygon:
		var l []int
		for _, m := range t {
			l = append(l, len(m))
		}
		runOf(l)
	case geom.MultiPolygon:
		var l []int
		for _, m := range t {
			l = append(l, m.Len())
			h, mr, _ := emptyStats(m)
			hasEmpty = hasEmpty || h
			if mr > maxRun {
				maxRun = mr
			}
		}
		runOf(l)
	case geom.GeometryCollection:
		if len(t) == 0 {
			emptyColl = true
		}
		var l []int
		for _, m := range t {
			l = append(l, m.Len())
			h, mr, ec := emptyStats(m)
			hasEmpty = hasEmpty || h
			emptyColl = emptyColl || ec
			if mr > maxRun {
				maxRun = mr
			}
		}
		runOf(l)
	}
	return
}

func runGeom(c *core.Ctx) {
	r := c.R
	o := &gen.GeomOpts{
		Kinds:      []int{gen.KPoint, gen.KMultiPoint, gen.KLineString, gen.KMultiLineString, gen.KPolygon, gen.KMultiPolygon, gen.KCollection, gen.KBounds},
		Coord:      coord,
		MaxMembers: 5, MaxVerts: 4, MinVerts: 0, MinMembers: 0, MaxDepth: 4,
		EmptyBoxes: 0.15,
	}
	// all kinds evenly at top level
	k := o.Kinds[r.Intn(len(o.Kinds))]
	g := gen.RandGeomKind(r, o, k, 0)
	if r.Chance(0.03) {
		// collections nested 5 .. 10 levels deep, every level with (possibly empty) members before
		// and after the nested collection
		depth := r.IntRange(5, 10)
		leaf := func() geom.Geom {
			switch r.Intn(5) {
			case 0:
				return geom.MultiPoint{}
			case 1:
				return geom.LineString{}
			case 2:
				return geom.GeometryCollection{}
			case 3:
				return geom.Point{X: coord(r), Y: coord(r)}
			}
			return geom.LineString{{X: coord(r), Y: coord(r)}, {X: coord(r), Y: coord(r)}}
		}
		var inner geom.Geom = geom.GeometryCollection{leaf(), leaf()}
		for d := 0; d < depth; d++ {
			gc := geom.GeometryCollection{}
			for k := r.Intn(3); k > 0; k-- {
				gc = append(gc, leaf())
			}
			gc = append(gc, inner)
			for k := r.Intn(3); k > 0; k-- {
				gc = append(gc, leaf())
			}
			inner = gc
		}
		g = inner
		c.Count("geom.collections_nested_5_to_10_deep")
	}
	var bigDesc map[string]interface{}
	if r.Chance(0.012) {
		// one long path (lengths on both sides of 64 ... 65536) whose unique X or Y extreme sits
		// at a position next to a likely chunk boundary, wrapped in every container type
		n := gen.BigLen(r)
		pts := make([]geom.Point, n)
		for i := range pts {
			pts[i] = geom.Point{X: r.Range(-4, 4), Y: r.Range(-4, 4)}
		}
		at := gen.EdgePos(r, n)
		ext := []geom.Point{{X: 25, Y: pts[at].Y}, {X: -25, Y: pts[at].Y}, {X: pts[at].X, Y: 30}, {X: pts[at].X, Y: -30}, {X: 25, Y: 30}}[r.Intn(5)]
		pts[at] = ext
		small := func() []geom.Point { return []geom.Point{{X: 1, Y: 1}, {X: 2, Y: 1}, {X: 1, Y: 2}} }
		wrap := r.Intn(7)
		switch wrap {
		case 0:
			g = geom.LineString(pts)
		case 1:
			g = geom.Polygon{pts}
		case 2:
			g = geom.Polygon{small(), pts}
		case 3:
			g = geom.MultiLineString{small(), pts, small()}
		case 4:
			g = geom.MultiPolygon{{small()}, {small(), pts}}
		case 5:
			g = geom.GeometryCollection{geom.Point{X: 0, Y: 0}, geom.GeometryCollection{geom.MultiLineString{pts}}}
		default:
			g = geom.MultiPoint(pts)
		}
		bigDesc = map[string]interface{}{"long_path_vertices": n, "extreme_vertex_index": at, "extreme_vertex": []float64{ext.X, ext.Y}, "container": fmt.Sprintf("%T (layout %d)", g, wrap),
			"note": "other vertices uniform in [-4,4]^2; the replay regenerates the case from its seed"}
		c.Count("geom.long_path")
		if n >= 4096 {
			c.Count("geom.long_path>=4096")
		}
	}
	if _, isBox := g.(*geom.Bounds); !isBox && r.Chance(0.3) {
		// paths as consecutive sub-slices of one backing array (see gen.InArena); the expected
		// vertex list below is a copy taken before any call
		g = gen.InArena(g).G
		c.Count("storage.paths_share_one_backing_array")
	}
	name := tn(g)
	c.Count("type." + name)
	want := gen.Flatten(g)
	hasEmpty, maxRun, emptyColl := emptyStats(g)
	if hasEmptyBox(g) {
		c.Count("geom.empty_box_as_geometry_or_member")
	}
	if hasEmpty {
		c.Count("geom.with_empty_member")
	}
	if maxRun >= 2 {
		c.Count("geom.empty_run>=2")
	}
	if emptyColl {
		c.Count("geom.empty_collection")
	}
	if len(want) == 0 {
		c.Count("geom.no_vertices")
	}
	h := core.NewHasher()
	gen.HashGeom(h, g)
	if hasEmpty || emptyColl {
		c.Nontrivial(h.Sum())
	}
	if c.WantSample() && hasEmpty {
		c.Sample(map[string]interface{}{"geometry": gen.Dump(g), "expected_vertices": len(want)})
	}
	c.Eval()
	var detail map[string]interface{}
	if bigDesc != nil {
		detail = bigDesc
	} else {
		detail = map[string]interface{}{"geometry": gen.Dump(g)}
	}

	// Len
	var n int
	if c.Guard("Len:"+name, detail, func() { n = g.Len() }) {
		return
	}
	if n != len(want) {
		c.Violate("len:"+name, fmt.Sprintf("%s.Len() = %d, geometry stores %d vertices", name, n, len(want)), detail)
	}
	// Points: exactly Len() calls, in storage order, no panic
	var got []geom.Point
	if rec := core.Try(func() {
		it := g.Points()
		for i := 0; i < len(want); i++ {
			got = append(got, it())
		}
	}); rec != nil {
		kind := "empty-members"
		if !hasEmpty && !emptyColl {
			kind = "no-empty-members"
		}
		c.Violate("points-panic:"+name+":"+kind, fmt.Sprintf("%s.Points() panicked after %d of %d vertices: %v", name, len(got), len(want), core.Trunc(fmt.Sprint(rec), 120)), detail)
	} else {
		for i := range want {
			if !gen.BitsEqual(got[i], want[i]) {
				c.Violate("points-order:"+name, fmt.Sprintf("%s.Points() vertex %d = %s, storage order has %s", name, i, gen.PtStr(got[i]), gen.PtStr(want[i])), detail)
				break
			}
		}
	}
	// Bounds
	minx, miny, maxx, maxy := math.Inf(1), math.Inf(1), math.Inf(-1), math.Inf(-1)
	for _, p := range want {
		minx, miny = math.Min(minx, p.X), math.Min(miny, p.Y)
		maxx, maxy = math.Max(maxx, p.X), math.Max(maxy, p.Y)
	}
	judgeBounds := func(when string) *geom.Bounds {
		var b *geom.Bounds
		if c.Guard("Bounds:"+name+when, detail, func() { b = g.Bounds() }) {
			return nil
		}
		if b == nil {
			c.Violate("bounds-nil:"+name+when, name+".Bounds() returned nil", detail)
			return nil
		}
		if len(want) == 0 {
			if !b.Empty() {
				c.Violate("bounds-notempty:"+name+when, fmt.Sprintf("%s without vertices has non-empty Bounds %v", name, *b), detail)
			}
			return b
		}
		if b.Min.X != minx || b.Min.Y != miny || b.Max.X != maxx || b.Max.Y != maxy {
			kind := "plain"
			if hasEmpty || emptyColl {
				kind = "with-empty-member"
			}
			c.Violate("bounds-value:"+name+":"+kind+when, fmt.Sprintf("%s.Bounds() = %v, smallest box is {%v %v} {%v %v}", name, *b, minx, miny, maxx, maxy), detail)
		}
		if b.Empty() {
			c.Violate("bounds-empty:"+name+when, fmt.Sprintf("%s with %d vertices reports an Empty() box", name, len(want)), detail)
		}
		return b
	}
	b := judgeBounds("")
	if _, isBox := g.(*geom.Bounds); b != nil && !isBox {
		// The box Bounds() returns is the caller's to modify (accumulating an extent with Extend is
		// the usual idiom). Doing so must not change what Bounds() says afterwards - of this
		// geometry or, later in the same process, of any other.
		b.Extend(&geom.Bounds{Min: geom.Point{X: -7e5, Y: -7e5}, Max: geom.Point{X: 7e5, Y: 7e5}})
		b.Min.X, b.Max.Y = -9e5, 9e5
		judgeBounds(":after-an-earlier-result-was-modified")
	}
}

func boxCoord(r *gen.R) float64 {
	if r.Chance(0.1) {
		return math.Copysign(0, -1)
	}
	if r.Chance(0.15) {
		return r.Range(-4, 4)
	}
	return float64(r.IntRange(-4, 4))
}

// extreme coordinates: infinite, overflowing and underflowing extents
var extremes = []float64{math.Inf(-1), math.Inf(1), -1e308, 1e308, -1e-170, 1e-170, 2e-170, -math.MaxFloat64, math.MaxFloat64, math.SmallestNonzeroFloat64, 0, 1, -1}

func randBox(r *gen.R) *geom.Bounds {
	if r.Chance(0.12) {
		return geom.NewBounds()
	}
	if r.Chance(0.06) {
		// an empty box that is not the canonical one: Min beyond Max on one or both axes
		// (Empty() reports true for it; as a set it holds no point)
		b := &geom.Bounds{Min: geom.Point{X: boxCoord(r), Y: boxCoord(r)}, Max: geom.Point{X: boxCoord(r), Y: boxCoord(r)}}
		switch r.Intn(3) {
		case 0:
			b.Min.X, b.Max.X = math.Max(b.Min.X, b.Max.X)+1, math.Min(b.Min.X, b.Max.X)
		case 1:
			b.Min.Y, b.Max.Y = math.Max(b.Min.Y, b.Max.Y)+1, math.Min(b.Min.Y, b.Max.Y)
		default:
			b.Min.X, b.Max.X = math.Max(b.Min.X, b.Max.X)+1, math.Min(b.Min.X, b.Max.X)
			b.Min.Y, b.Max.Y = math.Max(b.Min.Y, b.Max.Y)+2, math.Min(b.Min.Y, b.Max.Y)
		}
		return b
	}
	x0, x1, y0, y1 := boxCoord(r), boxCoord(r), boxCoord(r), boxCoord(r)
	if r.Chance(0.15) {
		// boxes with extreme extents (the property covers all coordinate values incl. infinities)
		pick := func() float64 { return extremes[r.Intn(len(extremes))] }
		x0, x1 = pick(), pick()
		if r.Bool() {
			y0, y1 = pick(), pick()
		}
		// (a box may be degenerate at an infinity: the envelope of vertices that all have x = +Inf)
	}
	if r.Chance(0.1) && !math.IsInf(x0, 0) {
		x1 = x0 // degenerate
	}
	if r.Chance(0.1) && !math.IsInf(y0, 0) {
		y1 = y0
	}
	return &geom.Bounds{Min: geom.Point{X: math.Min(x0, x1), Y: math.Min(y0, y1)}, Max: geom.Point{X: math.Max(x0, x1), Y: math.Max(y0, y1)}}
}

// hasEmptyBox reports whether g is, or holds at any depth, an empty *Bounds.
func hasEmptyBox(g geom.Geom) bool {
	switch t := g.(type) {
	case *geom.Bounds:
		return t != nil && isEmpty(t)
	case geom.GeometryCollection:
		for _, m := range t {
			if hasEmptyBox(m) {
				return true
			}
		}
	}
	return false
}

func isEmpty(b *geom.Bounds) bool { return b.Max.X < b.Min.X || b.Max.Y < b.Min.Y }

// join is the model of Extend.
func join(a, b *geom.Bounds) geom.Bounds {
	if b == nil || isEmpty(b) {
		return *a
	}
	if isEmpty(a) {
		return *b
	}
	return geom.Bounds{Min: geom.Point{X: math.Min(a.Min.X, b.Min.X), Y: math.Min(a.Min.Y, b.Min.Y)},
		Max: geom.Point{X: math.Max(a.Max.X, b.Max.X), Y: math.Max(a.Max.Y, b.Max.Y)}}
}

func beq(a, b geom.Bounds) bool {
	if isEmpty(&a) && isEmpty(&b) {
		return true
	}
	return a.Min.X == b.Min.X && a.Min.Y == b.Min.Y && a.Max.X == b.Max.X && a.Max.Y == b.Max.Y
}

func bstr(b *geom.Bounds) string {
	if b == nil {
		return "nil"
	}
	return fmt.Sprintf("{%v %v %v %v}", b.Min.X, b.Min.Y, b.Max.X, b.Max.Y)
}

func runBoxes(c *core.Ctx) {
	r := c.R
	a, b, d := randBox(r), randBox(r), randBox(r)
	if r.Chance(0.03) {
		// one box degenerate at an infinity on one axis (the envelope of vertices that all have
		// x = +Inf), the other reaching the same infinity on that axis; the other axis overlaps
		inf := math.Inf(1 - 2*r.Intn(2))
		y0 := boxCoord(r)
		a = &geom.Bounds{Min: geom.Point{X: inf, Y: y0}, Max: geom.Point{X: inf, Y: y0 + float64(r.IntRange(0, 4))}}
		o := []float64{boxCoord(r), 1e308 * float64(1-2*r.Intn(2)), inf}[r.Intn(3)]
		b = &geom.Bounds{Min: geom.Point{X: math.Min(o, inf), Y: y0 - float64(r.IntRange(0, 2))}, Max: geom.Point{X: math.Max(o, inf), Y: y0 + float64(r.IntRange(0, 5))}}
		if r.Bool() {
			a.Min.X, a.Min.Y, a.Max.X, a.Max.Y = a.Min.Y, a.Min.X, a.Max.Y, a.Max.X
			b.Min.X, b.Min.Y, b.Max.X, b.Max.Y = b.Min.Y, b.Min.X, b.Max.Y, b.Max.X
		}
		if r.Bool() {
			a, b = b, a
		}
		c.Count("box.pair_meeting_at_an_infinity")
	}
	detail := map[string]interface{}{"a": bstr(a), "b": bstr(b), "c": bstr(d)}
	c.Eval()
	ea, eb := isEmpty(a), isEmpty(b)
	for _, bx := range []*geom.Bounds{a, b} {
		for _, v := range []float64{bx.Min.X, bx.Min.Y, bx.Max.X, bx.Max.Y} {
			if !isEmpty(bx) && (math.IsInf(v, 0) || math.Abs(v) > 1e300 || (v != 0 && math.Abs(v) < 1e-160)) {
				c.Count("box.extreme_extent")
				break
			}
		}
	}
	h := core.NewHasher()
	gen.HashGeom(h, a)
	gen.HashGeom(h, b)
	gen.HashGeom(h, d)
	nontrivial := false
	if ea || eb {
		c.Count("box.empty_operand")
		nontrivial = true
	}
	// model relations
	shares := !ea && !eb && a.Min.X <= b.Max.X && b.Min.X <= a.Max.X && a.Min.Y <= b.Max.Y && b.Min.Y <= a.Max.Y
	var w, ht float64
	if !ea && !eb {
		w = math.Min(a.Max.X, b.Max.X) - math.Max(a.Min.X, b.Min.X)
		ht = math.Min(a.Max.Y, b.Max.Y) - math.Max(a.Min.Y, b.Min.Y)
		if shares && (w == 0 || ht == 0) {
			c.Count("box.touching")
			nontrivial = true
		}
		if (w < 0) != (ht < 0) {
			c.Count("box.sep_one_axis")
			nontrivial = true
		}
		if w > 0 && ht > 0 {
			c.Count("box.overlapping")
			nontrivial = true
		}
	}
	if nontrivial {
		c.Nontrivial(h.Sum())
	}
	if c.WantSample() && nontrivial {
		c.Sample(detail)
	}

	// Extend = join; commutative, associative, idempotent; Extend(nil) no-op
	ext := func(x, y *geom.Bounds) geom.Bounds {
		cp := &geom.Bounds{Min: x.Min, Max: x.Max}
		cp.Extend(y)
		return *cp
	}
	if c.Guard("Extend", detail, func() {
		ab := ext(a, b)
		if want := join(a, b); !beq(ab, want) {
			kind := "nonempty"
			if ea || eb {
				kind = "empty-operand"
			}
			c.Violate("extend-join:"+kind, fmt.Sprintf("%s.Extend(%s) = %s, join is %s", bstr(a), bstr(b), bstr(&ab), bstr(&want)), detail)
			return
		}
		ba := ext(b, a)
		if !beq(ab, ba) {
			c.Violate("extend-commutative", fmt.Sprintf("a.Extend(b)=%s but b.Extend(a)=%s", bstr(&ab), bstr(&ba)), detail)
		}
		abd := ext(&ab, d)
		bd := ext(b, d)
		a_bd := ext(a, &bd)
		if !beq(abd, a_bd) {
			c.Violate("extend-associative", fmt.Sprintf("(a∨b)∨c=%s but a∨(b∨c)=%s", bstr(&abd), bstr(&a_bd)), detail)
		}
		aa := ext(a, a)
		if !beq(aa, *a) {
			c.Violate("extend-idempotent", fmt.Sprintf("a.Extend(a)=%s for a=%s", bstr(&aa), bstr(a)), detail)
		}
		an := ext(a, nil)
		if !beq(an, *a) || (!ea && (an != *a)) {
			c.Violate("extend-nil", fmt.Sprintf("a.Extend(nil)=%s for a=%s", bstr(&an), bstr(a)), detail)
		}
		// Empty() agrees with the model
		if a.Empty() != ea {
			c.Violate("empty", fmt.Sprintf("%s.Empty() = %v", bstr(a), a.Empty()), detail)
		}
	}) {
		return
	}

	// Overlaps <=> closed boxes share a point
	c.Guard("Overlaps", detail, func() {
		if got := a.Overlaps(b); got != shares {
			c.Violate("overlaps", fmt.Sprintf("%s.Overlaps(%s) = %v, closed boxes share a point: %v", bstr(a), bstr(b), got, shares), detail)
		}
		if a.Overlaps(b) != b.Overlaps(a) {
			c.Violate("overlaps-symmetric", fmt.Sprintf("Overlaps not symmetric for %s, %s", bstr(a), bstr(b)), detail)
		}
	})

	// Copy independent
	c.Guard("Copy", detail, func() {
		cp := a.Copy()
		if cp == a || !beq(*cp, *a) {
			c.Violate("copy", "Copy is not an equal, distinct box", detail)
			return
		}
		orig := *a
		cp.Extend(&geom.Bounds{Min: geom.Point{X: -100, Y: -100}, Max: geom.Point{X: 100, Y: 100}})
		if *a != orig && !(isEmpty(a) && isEmpty(&orig)) {
			c.Violate("copy-aliased", "modifying the copy changed the original", detail)
		}
	})

	// box ∩ box
	if !ea && !eb {
		c.Guard("Intersection", detail, func() {
			a0, b0 := *a, *b
			got := a.Intersection(b)
			if *a != a0 || *b != b0 {
				c.Violate("intersection-mutates", "box∩box modified an operand", detail)
			}
			gotNil := got == nil
			if gb, ok := got.(*geom.Bounds); ok && gb == nil {
				gotNil = true
			}
			if w > 0 && ht > 0 {
				want := geom.Bounds{Min: geom.Point{X: math.Max(a.Min.X, b.Min.X), Y: math.Max(a.Min.Y, b.Min.Y)},
					Max: geom.Point{X: math.Min(a.Max.X, b.Max.X), Y: math.Min(a.Max.Y, b.Max.Y)}}
				if gotNil {
					c.Violate("intersection-nil", fmt.Sprintf("%s ∩ %s = nil, common rectangle is %s", bstr(a), bstr(b), bstr(&want)), detail)
					return
				}
				gb := got.Bounds()
				if !beq(*gb, want) {
					c.Violate("intersection-value", fmt.Sprintf("%s ∩ %s = %s, common rectangle is %s", bstr(a), bstr(b), bstr(gb), bstr(&want)), detail)
				}
			} else if !gotNil {
				kind := "disjoint"
				if shares {
					kind = "touching"
				} else if (w < 0) != (ht < 0) {
					kind = "separated-on-one-axis"
				}
				c.Violate("intersection-not-nil:"+kind, fmt.Sprintf("%s ∩ %s = %v, but the boxes share no area", bstr(a), bstr(b), gen.Dump(got)), detail)
			}
		})
	}
}
