// Package refproj holds reference forward-projection formulas written from
// the literature (Snyder 1987, "Map Projections — A Working Manual"; Karney
// 2011, "Transverse Mercator with an accuracy of a few nanometers") and a
// single geocentric Helmert chain. It shares no code, series coefficient or
// helper with the package under test or with proj4js.
package refproj

import "math"

// Ell is an ellipsoid.
type Ell struct{ A, F float64 }

// E2 returns the squared eccentricity.
func (e Ell) E2() float64 { return e.F * (2 - e.F) }

// Params are projection parameters (radians, metres).
type Params struct {
	Lat0, Lat1, Lat2, LatTS, Lon0, K0, X0, Y0 float64
	HasLatTS                                 bool
}

func mfn(e2, phi float64) float64 { // Snyder (14-15)
	s := math.Sin(phi)
	return math.Cos(phi) / math.Sqrt(1-e2*s*s)
}

func tfn(e, phi float64) float64 { // Snyder (15-9)
	s := math.Sin(phi)
	return math.Tan(math.Pi/4-phi/2) / math.Pow((1-e*s)/(1+e*s), e/2)
}

func qfn(e, phi float64) float64 { // Snyder (3-12)
	s := math.Sin(phi)
	if e < 1e-12 {
		return 2 * s
	}
	return (1 - e*e) * (s/(1-e*e*s*s) - math.Log((1-e*s)/(1+e*s))/(2*e))
}

func wrap(l float64) float64 {
	for l > math.Pi {
		l -= 2 * math.Pi
	}
	for l < -math.Pi {
		l += 2 * math.Pi
	}
	return l
}

// gauss-legendre nodes/weights (16 points) on [-1,1]
var glx = []float64{0.0950125098376374, 0.2816035507792589, 0.4580167776572274, 0.6178762444026438, 0.7554044083550030, 0.8656312023878318, 0.9445750230732326, 0.9894009349916499}
var glw = []float64{0.1894506104550685, 0.1826034150449236, 0.1691565193950025, 0.1495959888165767, 0.1246289712555339, 0.0951585116824928, 0.0622535239386479, 0.0271524594117541}

// MeridianArc returns the distance along the meridian from the equator to
// phi divided by a, by numerical quadrature of (1-e²)/(1-e² sin²θ)^(3/2)
// (composite 16-point Gauss-Legendre on 8 panels).
func MeridianArc(e2, phi float64) float64 {
	const panels = 8
	sum := 0.0
	h := phi / panels
	for p := 0; p < panels; p++ {
		a, b := float64(p)*h, float64(p+1)*h
		c, hw := (a+b)/2, (b-a)/2
		for i := range glx {
			for _, sgn := range []float64{-1, 1} {
				t := c + sgn*hw*glx[i]
				s := math.Sin(t)
				sum += glw[i] * hw * (1 - e2) / math.Pow(1-e2*s*s, 1.5)
			}
		}
	}
	return sum
}

// Mercator is Snyder (7-6), (7-7) with the scale of (7-8) at the latitude of true scale.
func Mercator(el Ell, p Params, lon, lat float64) (x, y float64) {
	e2 := el.E2()
	e := math.Sqrt(e2)
	k0 := p.K0
	if p.HasLatTS {
		k0 = mfn(e2, p.LatTS)
	}
	s := math.Sin(lat)
	x = el.A*k0*wrap(lon-p.Lon0) + p.X0
	y = el.A*k0*math.Log(math.Tan(math.Pi/4+lat/2)*math.Pow((1-e*s)/(1+e*s), e/2)) + p.Y0
	return
}

// LCC is Snyder (15-1)…(15-10); a single standard parallel uses n = sin φ1.
func LCC(el Ell, p Params, lon, lat float64) (x, y float64) {
	e2 := el.E2()
	e := math.Sqrt(e2)
	m1, m2 := mfn(e2, p.Lat1), mfn(e2, p.Lat2)
	t1, t2, t0, t := tfn(e, p.Lat1), tfn(e, p.Lat2), tfn(e, p.Lat0), tfn(e, lat)
	var n float64
	if math.Abs(p.Lat1-p.Lat2) > 1e-10 {
		n = (math.Log(m1) - math.Log(m2)) / (math.Log(t1) - math.Log(t2))
	} else {
		n = math.Sin(p.Lat1)
	}
	F := m1 / (n * math.Pow(t1, n))
	rho := el.A * F * math.Pow(t, n)
	rho0 := el.A * F * math.Pow(t0, n)
	th := n * wrap(lon-p.Lon0)
	x = p.K0*rho*math.Sin(th) + p.X0
	y = p.K0*(rho0-rho*math.Cos(th)) + p.Y0
	return
}

// Albers is Snyder (14-1)…(14-15).
func Albers(el Ell, p Params, lon, lat float64) (x, y float64) {
	e2 := el.E2()
	e := math.Sqrt(e2)
	m1, m2 := mfn(e2, p.Lat1), mfn(e2, p.Lat2)
	q1, q2, q0, q := qfn(e, p.Lat1), qfn(e, p.Lat2), qfn(e, p.Lat0), qfn(e, lat)
	var n float64
	if math.Abs(p.Lat1-p.Lat2) > 1e-10 {
		n = (m1*m1 - m2*m2) / (q2 - q1)
	} else {
		n = math.Sin(p.Lat1)
	}
	C := m1*m1 + n*q1
	rho := el.A * math.Sqrt(C-n*q) / n
	rho0 := el.A * math.Sqrt(C-n*q0) / n
	th := n * wrap(lon-p.Lon0)
	x = rho*math.Sin(th) + p.X0
	y = rho0 - rho*math.Cos(th) + p.Y0
	return
}

// EquidistantConic is Snyder (16-1)…(16-4) with the meridian arc by quadrature.
func EquidistantConic(el Ell, p Params, lon, lat float64) (x, y float64) {
	e2 := el.E2()
	m1, m2 := mfn(e2, p.Lat1), mfn(e2, p.Lat2)
	M1, M2, M0, M := MeridianArc(e2, p.Lat1), MeridianArc(e2, p.Lat2), MeridianArc(e2, p.Lat0), MeridianArc(e2, lat)
	var n float64
	if math.Abs(p.Lat1-p.Lat2) > 1e-10 {
		n = (m1 - m2) / (M2 - M1)
	} else {
		n = math.Sin(p.Lat1)
	}
	G := m1/n + M1
	rho := el.A * (G - M)
	rho0 := el.A * (G - M0)
	th := n * wrap(lon-p.Lon0)
	x = rho*math.Sin(th) + p.X0
	y = rho0 - rho*math.Cos(th) + p.Y0
	return
}

// TransverseMercator is the Krüger n-series to sixth order (Karney 2011, eqs. 7-11, 35).
func TransverseMercator(el Ell, p Params, lon, lat float64) (x, y float64) {
	f := el.F
	n := f / (2 - f)
	n2, n3, n4, n5, n6 := n*n, n*n*n, n*n*n*n, n*n*n*n*n, n*n*n*n*n*n
	A := el.A / (1 + n) * (1 + n2/4 + n4/64 + n6/256)
	al := []float64{
		n/2 - 2*n2/3 + 5*n3/16 + 41*n4/180 - 127*n5/288 + 7891*n6/37800,
		13*n2/48 - 3*n3/5 + 557*n4/1440 + 281*n5/630 - 1983433*n6/1935360,
		61*n3/240 - 103*n4/140 + 15061*n5/26880 + 167603*n6/181440,
		49561*n4/161280 - 179*n5/168 + 6601661*n6/7257600,
		34729*n5/80640 - 3418889*n6/1995840,
		212378941 * n6 / 319334400,
	}
	e := math.Sqrt(el.E2())
	taup := func(phi float64) float64 {
		tau := math.Tan(phi)
		sg := math.Sinh(e * math.Atanh(e*tau/math.Sqrt(1+tau*tau)))
		return tau*math.Sqrt(1+sg*sg) - sg*math.Sqrt(1+tau*tau)
	}
	xi := func(phi, dl float64) (float64, float64) {
		tp := taup(phi)
		xip := math.Atan2(tp, math.Cos(dl))
		etap := math.Asinh(math.Sin(dl) / math.Sqrt(tp*tp+math.Cos(dl)*math.Cos(dl)))
		xi, eta := xip, etap
		for j := 1; j <= 6; j++ {
			xi += al[j-1] * math.Sin(2*float64(j)*xip) * math.Cosh(2*float64(j)*etap)
			eta += al[j-1] * math.Cos(2*float64(j)*xip) * math.Sinh(2*float64(j)*etap)
		}
		return xi, eta
	}
	x1, e1 := xi(lat, wrap(lon-p.Lon0))
	x0, _ := xi(p.Lat0, 0)
	x = p.K0*A*e1 + p.X0
	y = p.K0*A*(x1-x0) + p.Y0
	return
}

// Helmert holds PROJ.4 +towgs84 parameters: metres, arc-seconds, ppm
// (position-vector convention as documented for +towgs84).
type Helmert struct {
	Dx, Dy, Dz, Rx, Ry, Rz, S float64
	N                         int // 0, 3 or 7
}

const sec = math.Pi / 180 / 3600

// ToECEF converts geodetic (rad, height m) to geocentric.
func ToECEF(el Ell, lon, lat, h float64) (X, Y, Z float64) {
	e2 := el.E2()
	s := math.Sin(lat)
	N := el.A / math.Sqrt(1-e2*s*s)
	X = (N + h) * math.Cos(lat) * math.Cos(lon)
	Y = (N + h) * math.Cos(lat) * math.Sin(lon)
	Z = (N*(1-e2) + h) * s
	return
}

// FromECEF converts geocentric to geodetic by fixed-point iteration on the latitude.
func FromECEF(el Ell, X, Y, Z float64) (lon, lat, h float64) {
	e2 := el.E2()
	lon = math.Atan2(Y, X)
	p := math.Hypot(X, Y)
	lat = math.Atan2(Z, p*(1-e2))
	for i := 0; i < 50; i++ {
		s := math.Sin(lat)
		N := el.A / math.Sqrt(1-e2*s*s)
		h = p/math.Cos(lat) - N
		nl := math.Atan2(Z, p*(1-e2*N/(N+h)))
		if math.Abs(nl-lat) < 1e-15 {
			lat = nl
			break
		}
		lat = nl
	}
	s := math.Sin(lat)
	N := el.A / math.Sqrt(1-e2*s*s)
	h = p/math.Cos(lat) - N
	return
}

// ToWGS84 applies the datum's parameters (towards WGS84).
func (hm Helmert) ToWGS84(X, Y, Z float64) (float64, float64, float64) {
	if hm.N == 0 {
		return X, Y, Z
	}
	if hm.N == 3 {
		return X + hm.Dx, Y + hm.Dy, Z + hm.Dz
	}
	rx, ry, rz, m := hm.Rx*sec, hm.Ry*sec, hm.Rz*sec, 1+hm.S*1e-6
	return m*(X-rz*Y+ry*Z) + hm.Dx, m*(rz*X+Y-rx*Z) + hm.Dy, m*(-ry*X+rx*Y+Z) + hm.Dz
}

// FromWGS84 applies the documented (first-order) inverse.
func (hm Helmert) FromWGS84(X, Y, Z float64) (float64, float64, float64) {
	if hm.N == 0 {
		return X, Y, Z
	}
	if hm.N == 3 {
		return X - hm.Dx, Y - hm.Dy, Z - hm.Dz
	}
	rx, ry, rz, m := hm.Rx*sec, hm.Ry*sec, hm.Rz*sec, 1+hm.S*1e-6
	x, y, z := (X-hm.Dx)/m, (Y-hm.Dy)/m, (Z-hm.Dz)/m
	return x + rz*y - ry*z, -rz*x + y + rx*z, ry*x - rx*y + z
}

// Shift moves a geodetic position (height 0) from one datum to another through one geocentric chain.
func Shift(from Ell, hf Helmert, to Ell, ht Helmert, lon, lat float64) (float64, float64) {
	X, Y, Z := ToECEF(from, lon, lat, 0)
	X, Y, Z = hf.ToWGS84(X, Y, Z)
	X, Y, Z = ht.FromWGS84(X, Y, Z)
	lo, la, _ := FromECEF(to, X, Y, Z)
	return lo, la
}
