// Package c06 monitors property C06: GeoJSON encoding round-trips every
// non-empty finite geometry and emits RFC 7946 geometry objects.
package c06

import (
	"bytes"
	"encoding/json"
	"fmt"
	"math"
	"strconv"

	"github.com/ctessum/geom"
	"github.com/ctessum/geom/encoding/geojson"

	"verifharness/internal/core"
	"verifharness/internal/gen"
)

func init() {
	core.Register(&core.Prop{
		ID: "C06",
		Rule: "case = one random geometry of the six GeoJSON types (first member non-empty, later members possibly empty, finite coordinates from arbitrary bit patterns incl. -0, subnormals, 17-digit values, 1e±300) encoded, shape-checked against RFC 7946 with an independent walk of the JSON text (UseNumber, exact numeral parse) and decoded back bitwise; or one negative case (unsupported type / non-finite coordinate) that must yield an error; " +
			"non-trivial = geometry with more than one member or an empty later member or a special-value coordinate; distinct by content hash",
		Assumptions: []string{"encoding/json is trusted as the JSON tokenizer of the shape check", "first-member-non-empty restriction as in the property statement"},
		Phases: []core.Phase{{Name: "roundtrip", NumCases: func(t string) int {
			if t == "thorough" {
				return 2000000
			}
			return 50000
		}}},
		Run:   run,
		Setup: func(c *core.Ctx) { c.State = &aliasState{} },
		Floors: func(t string) map[string]int64 {
			return map[string]int64{"alias.checked": 1000, "neg.nonfinite_rejected": 100, "neg.nonfinite_in_large_geometry": 100, "neg.unsupported_rejected": 100, "empty_later_member": 100, "coord.neg_zero": 100, "coord.subnormal": 100,
				"type.Point": 100, "type.MultiPoint": 100, "type.LineString": 100, "type.MultiLineString": 100, "type.Polygon": 100, "type.MultiPolygon": 100}
		},
	})
}

var names = map[int]string{gen.KPoint: "Point", gen.KMultiPoint: "MultiPoint", gen.KLineString: "LineString", gen.KMultiLineString: "MultiLineString", gen.KPolygon: "Polygon", gen.KMultiPolygon: "MultiPolygon"}
var depths = map[string]int{"Point": 1, "MultiPoint": 2, "LineString": 2, "MultiLineString": 3, "Polygon": 3, "MultiPolygon": 4}

// GenGeom draws a geometry inside the C06 quantifier (also used by C07).
func GenGeom(r *gen.R, coord func(*gen.R) float64) (geom.Geom, string, bool) {
	ks := []int{gen.KPoint, gen.KMultiPoint, gen.KLineString, gen.KMultiLineString, gen.KPolygon, gen.KMultiPolygon}
	k := ks[r.Intn(len(ks))]
	o := &gen.GeomOpts{Coord: coord, MaxMembers: 5, MaxVerts: 6, MinVerts: 0, MinMembers: 1}
	if r.Chance(0.02) {
		o.BigPath, o.MaxMembers = 0.3, 2 // paths of 63 .. 65537 vertices (documents beyond 4 KiB / 64 KiB / 1 MiB buffers)
		o.MaxVerts = 1500 // large coordinate arrays
	}
	g := gen.RandGeomKind(r, o, k, 0)
	if k != gen.KPoint && k != gen.KLineString && r.Chance(0.01) {
		g = gen.ManyMembers(r, k, coord) // 127..8192 small members
	}
	pt := func() geom.Point { return geom.Point{X: coord(r), Y: coord(r)} }
	emptyLater := false
	// force the first member to be non-empty; note empty later members
	switch t := g.(type) {
	case geom.MultiPoint:
		if len(t) == 0 {
			g = geom.MultiPoint{pt()}
		}
	case geom.LineString:
		if len(t) == 0 {
			g = geom.LineString{pt()}
		}
	case geom.MultiLineString:
		if len(t[0]) == 0 {
			t[0] = geom.LineString{pt()}
		}
		for _, m := range t[1:] {
			if len(m) == 0 {
				emptyLater = true
			}
		}
	case geom.Polygon:
		if len(t[0]) == 0 {
			t[0] = geom.Path{pt()}
		}
		for _, m := range t[1:] {
			if len(m) == 0 {
				emptyLater = true
			}
		}
	case geom.MultiPolygon:
		if len(t[0]) == 0 {
			t[0] = geom.Polygon{geom.Path{pt()}}
		}
		if len(t[0][0]) == 0 {
			t[0][0] = geom.Path{pt()}
		}
		for i, m := range t {
			if len(m) == 0 && i > 0 {
				emptyLater = true
			}
			for j, rr := range m {
				if len(rr) == 0 && (i > 0 || j > 0) {
					emptyLater = true
				}
			}
		}
	}
	// rings (and lines) "closed" by a last vertex that equals the first one numerically but not
	// bit for bit: zero ordinates with opposite signs (a closing vertex that was computed, not copied)
	closeWithOtherZero := func(p []geom.Point) { gen.CloseWithOtherZero(r, p, 0.12) }
	switch t := g.(type) {
	case geom.LineString:
		closeWithOtherZero(t)
	case geom.MultiLineString:
		for _, m := range t {
			closeWithOtherZero(m)
		}
	case geom.Polygon:
		for _, m := range t {
			closeWithOtherZero(m)
		}
	case geom.MultiPolygon:
		for _, pg := range t {
			for _, m := range pg {
				closeWithOtherZero(m)
			}
		}
	}
	return g, names[k], emptyLater
}

func run(c *core.Ctx, idx int) {
	r := c.R
	c.Eval()
	if r.Chance(0.1) {
		negative(c)
		return
	}
	coord := gen.FiniteBitsCoord
	if r.Chance(0.3) {
		coord = func(r *gen.R) float64 { return r.Range(-180, 180) }
	}
	g, name, emptyLater := GenGeom(r, coord)
	c.Count("type." + name)
	detail := map[string]interface{}{"geometry": gen.Dump(g)}
	special := false
	for _, p := range gen.Flatten(g) {
		for _, v := range []float64{p.X, p.Y} {
			if v == 0 && math.Signbit(v) {
				c.Count("coord.neg_zero")
				special = true
			} else if v != 0 && math.Abs(v) < 2.3e-308 {
				c.Count("coord.subnormal")
				special = true
			}
		}
	}
	if emptyLater {
		c.Count("empty_later_member")
	}
	if special || emptyLater || g.Len() > 1 {
		h := core.NewHasher()
		gen.HashGeom(h, g)
		c.Nontrivial(h.Sum())
	}
	var txt []byte
	var err error
	if c.Guard("geojson.Encode:"+name, detail, func() { txt, err = geojson.Encode(g) }) {
		return
	}
	if err != nil {
		c.Violate("encode-error:"+name, fmt.Sprintf("geojson.Encode(%s) error: %v", name, err), detail)
		return
	}
	// the text returned for an earlier geometry must not change when another one is encoded
	if st, ok := c.State.(*aliasState); ok {
		if st.prev != nil && !bytes.Equal(st.prev, st.prevCopy) {
			c.Violate("encode-output-mutated", fmt.Sprintf("the bytes returned by an earlier geojson.Encode call changed after a later call: %q became %q", core.Trunc(string(st.prevCopy), 120), core.Trunc(string(st.prev), 120)), map[string]interface{}{"earlier_text": string(st.prevCopy), "now": string(st.prev)})
		}
		st.prev, st.prevCopy = txt, append([]byte(nil), txt...)
		c.Count("alias.checked")
	}
	detail["text"] = core.Trunc(string(txt), 2000)
	if c.WantSample() && g.Len() > 1 {
		c.Sample(map[string]interface{}{"text": core.Trunc(string(txt), 400)})
	}
	if why := ShapeCheck(txt, name, gen.Flatten(g)); why != "" {
		c.Violate("shape:"+name, "JSON text is not the RFC 7946 object for this geometry: "+why, detail)
	}
	var back geom.Geom
	if c.Guard("geojson.Decode:"+name, detail, func() { back, err = geojson.Decode(txt) }) {
		return
	}
	if err != nil {
		c.Violate("decode-error:"+name, fmt.Sprintf("geojson.Decode(Encode(%s)) error: %v", name, err), detail)
		return
	}
	if ok, why := gen.SameStructure(g, back); !ok {
		c.Violate("roundtrip:"+name, "Decode(Encode(g)) differs: "+why, detail)
	}
	// ToGeoJSON / FromGeoJSON agree with Encode / Decode
	c.Guard("ToGeoJSON:"+name, detail, func() {
		obj, err := geojson.ToGeoJSON(g)
		if err != nil {
			c.Violate("togeojson-error:"+name, fmt.Sprintf("ToGeoJSON error: %v", err), detail)
			return
		}
		if obj.Type != name {
			c.Violate("togeojson-type:"+name, fmt.Sprintf("ToGeoJSON type %q for %s", obj.Type, name), detail)
		}
		b2, err := json.Marshal(obj)
		if err != nil || !bytes.Equal(b2, txt) {
			c.Violate("togeojson-text:"+name, "json.Marshal(ToGeoJSON(g)) differs from Encode(g)", detail)
		}
	})
}

// ShapeCheck verifies that txt is one JSON object with "type" == name and a
// "coordinates" array nested exactly as the type requires whose leaves are
// [x, y] pairs equal (after exact numeral parsing) to want, in order.
func ShapeCheck(txt []byte, name string, want []geom.Point) string {
	dec := json.NewDecoder(bytes.NewReader(txt))
	dec.UseNumber()
	var top map[string]interface{}
	if err := dec.Decode(&top); err != nil {
		return "not a JSON object: " + err.Error()
	}
	if dec.More() {
		return "trailing data after the object"
	}
	ty, ok := top["type"].(string)
	if !ok || ty != name {
		return fmt.Sprintf("type member is %v, want %q", top["type"], name)
	}
	for k := range top {
		if k != "type" && k != "coordinates" && k != "bbox" {
			return "unexpected member " + k
		}
	}
	co, ok := top["coordinates"]
	if !ok {
		return "no coordinates member"
	}
	i := 0
	var walk func(v interface{}, depth int) string
	walk = func(v interface{}, depth int) string {
		arr, ok := v.([]interface{})
		if !ok {
			return fmt.Sprintf("expected an array at nesting level %d, found %T", depths[name]-depth+1, v)
		}
		if depth == 1 {
			if len(arr) != 2 {
				return fmt.Sprintf("position with %d elements", len(arr))
			}
			if i >= len(want) {
				return "more positions than vertices"
			}
			for k, e := range arr {
				n, ok := e.(json.Number)
				if !ok {
					return fmt.Sprintf("position element is %T", e)
				}
				f, err := strconv.ParseFloat(string(n), 64)
				if err != nil {
					return "numeral " + string(n) + ": " + err.Error()
				}
				w := want[i].X
				if k == 1 {
					w = want[i].Y
				}
				if math.Float64bits(f) != math.Float64bits(w) && !(f == 0 && w == 0) {
					return fmt.Sprintf("position %d element %d is %s, vertex has %s", i, k, string(n), strconv.FormatFloat(w, 'g', -1, 64))
				}
			}
			i++
			return ""
		}
		for _, e := range arr {
			if s := walk(e, depth-1); s != "" {
				return s
			}
		}
		return ""
	}
	if s := walk(co, depths[name]); s != "" {
		return s
	}
	if i != len(want) {
		return fmt.Sprintf("%d positions for %d vertices", i, len(want))
	}
	return ""
}

func negative(c *core.Ctx) {
	r := c.R
	if r.Bool() {
		o := &gen.GeomOpts{Coord: gen.FiniteBitsCoord, MaxMembers: 3, MaxVerts: 4, MinVerts: 1, MinMembers: 1, MaxDepth: 2}
		k := []int{gen.KCollection, gen.KBounds}[r.Intn(2)]
		g := gen.RandGeomKind(r, o, k, 0)
		if r.Chance(0.1) {
			g = nil // no geometry at all
			c.Count("neg.nil_geometry")
		}
		detail := map[string]interface{}{"geometry": gen.Dump(g)}
		c.Guard("geojson.Encode(unsupported)", detail, func() {
			b, err := geojson.Encode(g)
			if err == nil {
				c.Violate(fmt.Sprintf("unsupported-accepted:%T", g), fmt.Sprintf("geojson.Encode(%T) returned %q instead of an error", g, core.Trunc(string(b), 80)), detail)
			} else {
				_ = err.Error() // the report must be printable
				c.Count("neg.unsupported_rejected")
			}
		})
		return
	}
	g, name, _ := GenGeom(r, gen.FiniteBitsCoord)
	at := -1
	if r.Chance(0.15) {
		// a large geometry (one path of 63..65537 vertices): the offending value sits next to the
		// ends or to a likely chunk boundary
		n := gen.BigLen(r)
		pts := make([]geom.Point, n)
		for i := range pts {
			pts[i] = geom.Point{X: r.Range(-180, 180), Y: r.Range(-90, 90)}
		}
		small := func() []geom.Point { return []geom.Point{{X: 1, Y: 1}, {X: 2, Y: 1}, {X: 1, Y: 2}} }
		switch r.Intn(5) {
		case 0:
			g, name, at = geom.LineString(pts), "LineString", 0
		case 1:
			g, name, at = geom.MultiPoint(pts), "MultiPoint", 0
		case 2:
			g, name, at = geom.Polygon{small(), pts}, "Polygon", 3
		case 3:
			g, name, at = geom.MultiLineString{small(), pts, small()}, "MultiLineString", 3
		default:
			g, name, at = geom.MultiPolygon{{small()}, {pts, small()}}, "MultiPolygon", 3
		}
		at += gen.EdgePos(r, n)
		c.Count("neg.nonfinite_in_large_geometry")
	}
	// poison one coordinate
	bad := []float64{math.NaN(), math.Inf(1), math.Inf(-1)}[r.Intn(3)]
	if at < 0 {
		at = r.Intn(g.Len())
	}
	g = poison(g, at, r.Bool(), bad)
	detail := map[string]interface{}{"geometry": gen.Dump(g)}
	if g.Len() > 2000 {
		detail = map[string]interface{}{"type": name, "vertices": g.Len(), "non_finite_value": fmt.Sprint(bad), "at_vertex": at, "note": "the replay regenerates the case from its seed"}
	}
	c.Guard("geojson.Encode(nonfinite):"+name, detail, func() {
		b, err := geojson.Encode(g)
		if err == nil {
			c.Violate("nonfinite-accepted:"+name, fmt.Sprintf("geojson.Encode with a %v coordinate returned %q instead of an error", bad, core.Trunc(string(b), 80)), detail)
		} else {
			c.Count("neg.nonfinite_rejected")
		}
	})
}

func poison(g geom.Geom, k int, x bool, v float64) geom.Geom {
	g = gen.DeepCopy(g)
	set := func(p *geom.Point) {
		if x {
			p.X = v
		} else {
			p.Y = v
		}
	}
	i := 0
	visit := func(ps []geom.Point) {
		for j := range ps {
			if i == k {
				set(&ps[j])
			}
			i++
		}
	}
	switch t := g.(type) {
	case geom.Point:
		set(&t)
		return t
	case geom.MultiPoint:
		visit(t)
	case geom.LineString:
		visit(t)
	case geom.MultiLineString:
		for _, l := range t {
			visit(l)
		}
	case geom.Polygon:
		for _, l := range t {
			visit(l)
		}
	case geom.MultiPolygon:
		for _, pg := range t {
			for _, l := range pg {
				visit(l)
			}
		}
	}
	return g
}

// aliasState remembers the previous Encode output of this worker and a private copy of it.
type aliasState struct{ prev, prevCopy []byte }
