// Package c10 monitors property C10: reprojection is pointwise,
// history-independent and structure-preserving.
package c10

import (
	"errors"
	"fmt"
	"math"
	"regexp"
	"strings"

	"github.com/ctessum/geom"
	"github.com/ctessum/geom/proj"

	"verifharness/internal/core"
	"verifharness/internal/crsgen"
	"verifharness/internal/gen"
)

func init() {
	core.Register(&core.Prop{
		ID: "C10",
		Rule: "history phase: case = one pair of spatial references (emphasis on pairs where both sides carry 3-/7-parameter datums other than WGS84 — the intermediate WGS84 hop — and on sources/destinations with non-default +axis strings, plus ordinary pairs; in 12% of the pairs one side parses but cannot be set up - an unimplemented projection or utm without zone - so that every call fails; 'twin' pairs = one system twice with one optional clause written on one side only, never two spellings of the same system) with transformers T: S->D, T': D->S, T'': S->registered WGS84 and Tw: registered WGS84->S built once, then driven through a random history of 2-40 interleaved calls on tagged inputs (repeats included; a fifth of the calls go to a transformer built at that moment from the two already used SR objects); oracle for every call = a transformer built from freshly parsed copies of the same definitions and used once (agreement within 4 ulp, same error/no-error outcome, no panic); " +
			"structure phase (1% of the cases: one path of 63..65537 vertices in each container type with a value-keyed failing vertex next to the ends / chunk boundaries): case = one geometry of the 8 types (empty members included) transformed with an instrumented affine transformer (type/nesting preserved, *Bounds -> 4-vertex polygon in corner order, vertex i == t(vertex i) bitwise, input untouched), with nil (identity), with a transformer failing on its k-th call for every k <= Len (exactly that error, no panic) and with a real datum-shifting transformer compared vertex by vertex with fresh single-use transformers; " +
			"an evaluation is one transformer call or one Transform call judged; non-trivial = history with >= 2 calls through a hop pair, or geometry with >= 2 vertices; distinct by content hash",
		Assumptions: []string{"concurrent use of one transformer is not claimed (the property quantifies over histories, not schedules)", "4-ulp slack so that harmless refactors (cached constants) do not alarm"},
		Phases: []core.Phase{
			{Name: "history", NumCases: func(t string) int {
				if t == "thorough" {
					return 120000
				}
				return 4000
			}},
			{Name: "structure", NumCases: func(t string) int {
				if t == "thorough" {
					return 600000
				}
				return 20000
			}},
		},
		Run: run,
		Floors: func(t string) map[string]int64 {
			return map[string]int64{"pair.hop": 500, "pair.axis": 300, "pair.ordinary": 300, "pair.twin": 200, "pair.gridshift": 100, "pair.krovak": 100, "pair.short_towgs84_list": 100, "pair.short_towgs84_list_in_wkt": 30, "history.built_from_used_references": 3000, "history.calls": 20000, "history.repeat_call": 2000, "history.to_registered_wgs84": 1000, "history.from_registered_wgs84": 1000, "history.from_an_edited_copy_of_S": 1000, "history.failing_input": 1000, "pair.one_side_cannot_be_set_up": 100,
				"structure.failing_k": 10000, "structure.shared_backing_array": 1000, "structure.arbitrary_bit_patterns": 1000, "longpath.vertices>=2048": 15, "structure.nil_transformer": 1000, "structure.real_transformer": 1000, "structure.*Bounds": 100, "structure.GeometryCollection": 100, "structure.MultiPolygon": 100, "structure.MultiLineString": 100}
		},
	})
}

func run(c *core.Ctx, idx int) {
	if c.Phase == "history" {
		runHistory(c)
	} else {
		runStructure(c)
	}
}

var axes = func() []string {
	var o []string
	for _, a := range []string{"e", "w"} {
		for _, b := range []string{"n", "s"} {
			for _, u := range []string{"u", "d"} {
				for _, p := range [][3]int{{0, 1, 2}, {0, 2, 1}, {1, 0, 2}, {1, 2, 0}, {2, 0, 1}, {2, 1, 0}} {
					s := []string{a, b, u}
					o = append(o, s[p[0]]+s[p[1]]+s[p[2]])
				}
			}
		}
	}
	return o
}()

type call struct {
	which int // 0: T, 1: T', 2: T''
	in    [2]float64
}

func ulpClose(a, b float64) bool {
	if a == b || (math.IsNaN(a) && math.IsNaN(b)) {
		return true
	}
	if math.IsNaN(a) || math.IsNaN(b) || math.IsInf(a, 0) || math.IsInf(b, 0) {
		return false
	}
	d := math.Abs(a - b)
	u := math.Abs(math.Nextafter(a, math.Inf(1)) - a)
	return d <= 4*u
}

type outcome struct {
	x, y  float64
	err   bool
	panic string
}

func apply(t proj.Transformer, in [2]float64) (o outcome) {
	defer func() {
		if r := recover(); r != nil {
			o.panic = fmt.Sprint(r)
		}
	}()
	if t == nil {
		return outcome{x: in[0], y: in[1]}
	}
	x, y, err := t(in[0], in[1])
	return outcome{x: x, y: y, err: err != nil}
}

func fresh(src, dst string, in [2]float64) (o outcome) {
	defer func() {
		if r := recover(); r != nil {
			o.panic = fmt.Sprint(r)
		}
	}()
	s, err := proj.Parse(src)
	if err != nil {
		return outcome{err: true}
	}
	d, err := proj.Parse(dst)
	if err != nil {
		return outcome{err: true}
	}
	t, err := s.NewTransform(d)
	if err != nil {
		return outcome{err: true}
	}
	return apply(t, in)
}

// freshCopy is fresh() for a source that is a value copy of the parsed reference with its central
// meridian moved by dl (radians): a copy of a reference nobody has used.
func freshCopy(src, dst string, dl float64, in [2]float64) (o outcome) {
	defer func() {
		if r := recover(); r != nil {
			o.panic = fmt.Sprint(r)
		}
	}()
	s, err := proj.Parse(src)
	if err != nil {
		return outcome{err: true}
	}
	d, err := proj.Parse(dst)
	if err != nil {
		return outcome{err: true}
	}
	cp := *s
	cp.Long0 += dl
	t, err := cp.NewTransform(d)
	if err != nil {
		return outcome{err: true}
	}
	return apply(t, in)
}

func runHistory(c *core.Ctx) {
	r := c.R
	// choose the pair class
	class := []string{"hop", "hop", "axis", "ordinary", "twin", "hop", "hop", "axis", "ordinary", "twin", "gridshift", "krovak"}[r.Intn(12)]
	var sdef, ddef *crsgen.Def
	// a common geographic area so that both systems are usable at the same places
	lonG, latG := r.Range(-150, 150), r.Range(10, 60)
	if r.Bool() {
		latG = -latG
	}
	if class == "krovak" {
		lonG, latG = r.Range(14, 20), r.Range(48.2, 50.5) // where the Krovak projection is usable
	}
	area := crsgen.DatumArea{West: lonG - 1, East: lonG + 1, South: latG, North: latG}
	projs := []string{"longlat", "merc", "merc_k", "lcc", "lcc_1sp", "aea", "eqdc", "tmerc", "utm"}
	genIn := func(kinds []string) *crsgen.Def {
		for {
			d := crsgen.Gen(r, &crsgen.Options{Projs: projs, DatKinds: kinds, Area: &area, NoPM: true})
			if d.Proj == "longlat" {
				return d
			}
			dl := math.Mod(lonG-d.Lon0+540, 360) - 180
			if math.Abs(dl) <= d.DLon*0.8 && latG > d.LatMin+2 && latG < d.LatMax-2 {
				return d
			}
		}
	}
	switch class {
	case "hop":
		sdef, ddef = genIn([]string{"named", "towgs84_3", "towgs84_7"}), genIn([]string{"named", "towgs84_3", "towgs84_7"})
	case "axis":
		sdef, ddef = genIn(nil), genIn(nil)
		if r.Bool() {
			sdef.Extra = " +axis=" + axes[r.Intn(len(axes))]
		}
		if r.Bool() || sdef.Extra == "" {
			ddef.Extra = " +axis=" + axes[r.Intn(len(axes))]
		}
	case "krovak":
		// a Krovak system - whose set-up overrides the ellipsoid of the definition with Bessel's -
		// written with any ellipsoid clause or none, and a datum shift; paired with any other system
		sdef = crsgen.Gen(r, &crsgen.Options{Projs: []string{"krovak"}, DatKinds: []string{"towgs84_3", "towgs84_7", "named"}, KrovakAnyEll: true, NoPM: true})
		ddef = genIn([]string{"named", "towgs84_3", "towgs84_7"})
		if r.Bool() {
			sdef, ddef = ddef, sdef
		}
	case "gridshift":
		// two systems on one ellipsoid that both name the same grid-shift file: between the two no
		// datum step is needed, so T and T' work, while every transformation to or from another
		// datum fails ("gridshift not supported") - T'' fails on every call, and T, T' must go on
		// working in between
		sdef, ddef = genIn([]string{"none"}), genIn([]string{"none"})
		ddef.Ell, ddef.EllKind, ddef.A, ddef.Rf = sdef.Ell, sdef.EllKind, sdef.A, sdef.Rf
		sdef.Datum, ddef.Datum = " +nadgrids=conus", " +nadgrids=conus"
	case "twin":
		// the same system twice, one optional clause (false origin, latitude of origin / of true
		// scale) written on one side only: whether the two count as the same system must not
		// depend on whether either has been used before
		sdef = genIn(nil)
		for tries := 0; ddef == nil && tries < 20; tries++ {
			t, what := crsgen.Twin(r, sdef)
			// (twins that spell the same system are left out: for those a used pair is recognised
			// as equal and gets the identity, a fresh pair runs inverse and forward, and the two
			// differ by the truncation error of the series - both within the accuracy of C08)
			if t != nil && !strings.HasPrefix(what, "pm") {
				ddef = t
			}
		}
		if ddef == nil {
			class = "ordinary"
			ddef = genIn(nil)
		} else if r.Bool() {
			sdef, ddef = ddef, sdef
		}
	default:
		sdef, ddef = genIn(nil), genIn(nil)
	}
	wktShort := ""
	if class == "ordinary" && r.Chance(0.3) {
		// a +towgs84 list with 1, 2, 4, 5 or 6 terms (the missing ones are zero): whatever the
		// library makes of it, it must make the same of it every time, without panicking
		n := []int{1, 2, 4, 5, 6}[r.Intn(5)]
		terms := make([]string, n)
		for i := range terms {
			terms[i] = crsgen.F(math.Round(r.Range(-200, 200)))
			if i >= 3 {
				terms[i] = crsgen.F(math.Round(r.Range(-20, 20)) / 10)
			}
		}
		if r.Bool() {
			sdef.Datum, sdef.DatKind = " +towgs84="+strings.Join(terms, ","), "towgs84_3"
		} else {
			ddef.Datum, ddef.DatKind = " +towgs84="+strings.Join(terms, ","), "towgs84_3"
		}
		c.Count("pair.short_towgs84_list")
		if r.Chance(0.4) {
			// the same list in a WKT definition of a geographic system
			wktShort = `GEOGCS["short list",DATUM["D_short_list",SPHEROID["Bessel 1841",6377397.155,299.1528128],TOWGS84[` + strings.Join(terms, ", ") + `]],PRIMEM["Greenwich",0],UNIT["degree",0.0174532925199433]]`
			c.Count("pair.short_towgs84_list_in_wkt")
		}
	}
	c.Count("pair." + class)
	S, D := sdef.String(), ddef.String()
	if wktShort != "" {
		if r.Bool() {
			S = wktShort
		} else {
			D = wktShort
		}
	}
	if r.Chance(0.12) {
		// one side whose definition parses but whose projection cannot be set up (a projection
		// the port does not implement, utm without a zone): every call fails, the first one and
		// each later one alike
		broken := func(def string) string {
			var b string
			if strings.Contains(def, "+proj=utm") && r.Bool() {
				b = projZone.ReplaceAllString(def, "")
			} else {
				b = projName.ReplaceAllString(def, "+proj="+[]string{"laea", "stere", "gnom", "robin"}[r.Intn(4)])
			}
			if _, err := proj.Parse(b); err != nil {
				return def
			}
			return b
		}
		if r.Chance(0.7) {
			D = broken(D)
		} else {
			S = broken(S)
		}
		c.Count("pair.one_side_cannot_be_set_up")
	}
	detail := map[string]interface{}{"S": S, "D": D, "class": class}
	// build the three shared transformers once
	var T, Tr, Tw, Tfw, Tc proj.Transformer
	var srS, srD *proj.SR
	var cpS proj.SR // a value copy of srS with another central meridian: a different spatial reference
	copyDL := float64(r.IntRange(1, 6)) * math.Pi / 180
	if c.Guard("NewTransform", detail, func() {
		var err error
		if srS, err = proj.Parse(S); err != nil {
			panic("harness: " + err.Error())
		}
		if srD, err = proj.Parse(D); err != nil {
			panic("harness: " + err.Error())
		}
		wgs, _ := proj.Parse("WGS84")
		if T, err = srS.NewTransform(srD); err != nil {
			T = nil
		}
		if Tr, err = srD.NewTransform(srS); err != nil {
			Tr = nil
		}
		if Tw, err = srS.NewTransform(wgs); err != nil {
			Tw = nil
		}
		if Tfw, err = wgs.NewTransform(srS); err != nil {
			Tfw = nil
		}
		cpS = *srS
		cpS.Long0 += copyDL
		if Tc, err = cpS.NewTransform(srD); err != nil {
			Tc = nil
		}
	}) {
		return
	}
	// inputs: positions near (lonG, latG) expressed in S and in D coordinates via fresh transformers
	var inS, inD [][2]float64
	for k := 0; k < 5; k++ {
		p := [2]float64{lonG + r.Range(-0.8, 0.8), latG + r.Range(-1, 1)}
		if o := fresh("+proj=longlat +datum=WGS84 +no_defs", S, p); o.panic == "" && !o.err && !math.IsNaN(o.x) {
			inS = append(inS, [2]float64{o.x, o.y})
		} else {
			inS = append(inS, p)
		}
		if o := fresh("+proj=longlat +datum=WGS84 +no_defs", D, p); o.panic == "" && !o.err && !math.IsNaN(o.x) {
			inD = append(inD, [2]float64{o.x, o.y})
		} else {
			inD = append(inD, p)
		}
	}
	n := r.IntRange(2, 40)
	hist := make([]call, 0, n)
	var log []string
	h := core.NewHasher().Str(S).Str(D)
	prevKey := map[string]bool{}
	for k := 0; k < n; k++ {
		var cl call
		cl.which = r.Intn(3)
		if r.Chance(0.2) {
			cl.which = 3 + r.Intn(2)
		} else if r.Chance(0.15) {
			cl.which = 5
		} else if r.Chance(0.12) {
			cl.which = 6
		}
		i := r.Intn(5)
		if cl.which == 5 {
			cl.in = [2]float64{lonG + float64(i)*0.1, latG + float64(i)*0.1}
		} else if cl.which == 1 || cl.which == 4 {
			cl.in = inD[i]
		} else {
			cl.in = inS[i]
		}
		if r.Chance(0.12) {
			// an input on which the call fails (or returns NaN): later calls must be unaffected
			cl.in = [][2]float64{{math.NaN(), 1}, {1, math.NaN()}, {1e300, 1e300}, {cl.in[0], 95}, {cl.in[0], -91}, {1e7 * cl.in[0], cl.in[1]}, {math.Inf(1), 0}}[r.Intn(7)]
			c.Count("history.failing_input")
		}
		hist = append(hist, cl)
		key := fmt.Sprintf("%d/%d", cl.which, i)
		if prevKey[key] {
			c.Count("history.repeat_call")
		}
		prevKey[key] = true
		h.Int(cl.which).Int(i)
	}
	if n >= 2 && class == "hop" {
		c.Nontrivial(h.Sum())
	}
	names := []string{"T(S->D)", "T'(D->S)", "T''(S->WGS84)", "a transformer S->D built now from the same two spatial references", "a transformer D->S built now from the same two spatial references", "Tw(registered WGS84->S)", "Tc(a value copy of S with its central meridian moved -> D)"}
	rebuilt := func(a, b *proj.SR, in [2]float64) (o outcome) {
		defer func() {
			if r := recover(); r != nil {
				o.panic = fmt.Sprint(r)
			}
		}()
		t, err := a.NewTransform(b)
		if err != nil {
			return outcome{err: true}
		}
		return apply(t, in)
	}
	for k, cl := range hist {
		c.Eval()
		c.Count("history.calls")
		var got, want outcome
		switch cl.which {
		case 0:
			got, want = apply(T, cl.in), fresh(S, D, cl.in)
		case 1:
			got, want = apply(Tr, cl.in), fresh(D, S, cl.in)
		case 2:
			c.Count("history.to_registered_wgs84")
			got, want = apply(Tw, cl.in), fresh(S, "WGS84", cl.in)
		case 3:
			c.Count("history.built_from_used_references")
			got, want = rebuilt(srS, srD, cl.in), fresh(S, D, cl.in)
		case 4:
			c.Count("history.built_from_used_references")
			got, want = rebuilt(srD, srS, cl.in), fresh(D, S, cl.in)
		case 5:
			c.Count("history.from_registered_wgs84")
			got, want = apply(Tfw, cl.in), fresh("WGS84", S, cl.in)
		case 6:
			c.Count("history.from_an_edited_copy_of_S")
			got, want = apply(Tc, cl.in), freshCopy(S, D, copyDL, cl.in)
		}
		log = append(log, fmt.Sprintf("#%d %s(%v, %v) -> shared (%v, %v, err=%v) fresh (%v, %v, err=%v)", k, names[cl.which], cl.in[0], cl.in[1], got.x, got.y, got.err, want.x, want.y, want.err))
		detail["history"] = log
		if got.panic != "" || want.panic != "" {
			who := "shared"
			msg := got.panic
			if got.panic == "" {
				who, msg = "fresh", want.panic
			}
			c.Violate("panic:transformer:"+class, fmt.Sprintf("call #%d %s on the %s transformer panicked: %s", k, names[cl.which], who, core.Trunc(msg, 120)), detail)
			return
		}
		if got.err != want.err {
			c.Violate(fmt.Sprintf("history-error:%s:call#%s", class, firstOrLater(k)), fmt.Sprintf("call #%d %s: shared transformer error=%v, freshly built transformer error=%v", k, names[cl.which], got.err, want.err), detail)
			return
		}
		if !got.err && (!ulpClose(got.x, want.x) || !ulpClose(got.y, want.y)) {
			c.Violate(fmt.Sprintf("history-value:%s:call#%s", class, firstOrLater(k)), fmt.Sprintf("call #%d %s: shared transformer returns (%v, %v), a freshly built one (%v, %v)", k, names[cl.which], got.x, got.y, want.x, want.y), detail)
			return
		}
	}
	if c.WantSample() && class == "hop" {
		c.Sample(map[string]interface{}{"S": S, "D": D, "calls": len(hist), "first_calls": log[:minInt(3, len(log))]})
	}
}

func firstOrLater(k int) string {
	if k == 0 {
		return "first"
	}
	return "later"
}

func minInt(a, b int) int {
	if a < b {
		return a
	}
	return b
}

var (
	projName = regexp.MustCompile(`\+proj=[a-z_0-9]+`)
	projZone = regexp.MustCompile(` *\+zone=[0-9]+`)
)

var errSentinel = errors.New("verif: transformer failure on the chosen vertex")

func tname(g geom.Geom) string {
	s := fmt.Sprintf("%T", g)
	if s == "*geom.Bounds" {
		return "*Bounds"
	}
	return s[5:]
}

func affine(x, y float64) (float64, float64) { return 2*x + 3*y + 1, -x + 0.5*y - 7 }

// runLongPath: one long path (63 .. 65537 vertices) in each container type; a pure,
// goroutine-safe transformer that fails exactly on one marked vertex (chosen next to the
// ends and to likely chunk boundaries) must make Transform return that error; without a
// failing vertex the result is the vertex-wise image.
func runLongPath(c *core.Ctx) {
	r := c.R
	n := gen.BigLen(r)
	pts := make([]geom.Point, n)
	for i := range pts {
		pts[i] = geom.Point{X: r.Range(-1000, 1000), Y: r.Range(-1000, 1000)}
	}
	small := func() []geom.Point { return []geom.Point{{X: 1, Y: 1}, {X: 2, Y: 1}, {X: 1, Y: 2}} }
	var g geom.Geom
	wrap := r.Intn(6)
	switch wrap {
	case 0:
		g = geom.LineString(pts)
	case 1:
		g = geom.Polygon{small(), pts}
	case 2:
		g = geom.MultiLineString{small(), pts, small()}
	case 3:
		g = geom.MultiPolygon{{small()}, {pts, small()}}
	case 4:
		g = geom.GeometryCollection{geom.Point{X: 0, Y: 0}, geom.GeometryCollection{geom.LineString(pts)}}
	default:
		g = geom.MultiPoint(pts)
	}
	name := tname(g)
	c.Count("longpath." + name)
	if n >= 2048 {
		c.Count("longpath.vertices>=2048")
	}
	mark := geom.Point{X: 123456.5, Y: -98765.25}
	for trial := 0; trial < 6; trial++ {
		at := gen.EdgePos(r, n)
		saved := pts[at]
		pts[at] = mark
		ft := proj.Transformer(func(x, y float64) (float64, float64, error) {
			if x == mark.X && y == mark.Y {
				return math.NaN(), math.NaN(), errSentinel
			}
			a, b := affine(x, y)
			return a, b, nil
		})
		d := map[string]interface{}{"container": fmt.Sprintf("%T (layout %d)", g, wrap), "long_path_vertices": n, "failing_vertex_index_in_long_path": at,
			"note": "vertices uniform in [-1000,1000]^2 except the failing one; the replay regenerates the case from its seed"}
		c.Eval()
		var err error
		rec := core.Try(func() { _, err = g.Transform(ft) })
		pts[at] = saved
		if rec != nil {
			c.Violate("fail-panic:long-path:"+name, fmt.Sprintf("%s.Transform panicked when the transformer failed on vertex %d of a %d-vertex path: %v", name, at, n, core.Trunc(fmt.Sprint(rec), 120)), d)
			return
		}
		if err != errSentinel {
			c.Violate("fail-error-lost:long-path:"+name, fmt.Sprintf("%s.Transform returned error %v when the transformer failed on vertex %d of a %d-vertex path", name, err, at, n), d)
			return
		}
	}
	// no failing vertex: vertex-wise image
	c.Eval()
	pure := proj.Transformer(func(x, y float64) (float64, float64, error) { a, b := affine(x, y); return a, b, nil })
	var res geom.Geom
	var err error
	d := map[string]interface{}{"container": fmt.Sprintf("%T (layout %d)", g, wrap), "long_path_vertices": n}
	if c.Guard("Transform:long-path:"+name, d, func() { res, err = g.Transform(pure) }) {
		return
	}
	if err != nil {
		c.Violate("transform-error:long-path:"+name, fmt.Sprintf("%s.Transform returned %v for a transformer that never fails", name, err), d)
		return
	}
	if ok, why := gen.SameStructure(image(g), res); !ok {
		c.Violate("structure:long-path:"+name, fmt.Sprintf("%s.Transform result differs from the vertex-wise image: %s", name, why), d)
	}
}

func runStructure(c *core.Ctx) {
	r := c.R
	if r.Chance(0.01) {
		runLongPath(c)
		return
	}
	o := &gen.GeomOpts{
		Kinds:      []int{gen.KPoint, gen.KMultiPoint, gen.KLineString, gen.KMultiLineString, gen.KPolygon, gen.KMultiPolygon, gen.KCollection, gen.KBounds},
		Coord:      func(r *gen.R) float64 { return r.Range(-1000, 1000) },
		MaxMembers: 4, MaxVerts: 4, MinVerts: 0, MinMembers: 0, MaxDepth: 3,
	}
	bits := r.Chance(0.1)
	if bits {
		// arbitrary bit patterns: NaN (also in both ordinates), infinities, -0, extremes - the
		// transformer is the one to judge them, Transform just has to hand every vertex over
		o.Coord = gen.BitsCoord
		c.Count("structure.arbitrary_bit_patterns")
	}
	k := o.Kinds[r.Intn(len(o.Kinds))]
	g := gen.RandGeomKind(r, o, k, 0)
	name := tname(g)
	c.Count("structure." + name)
	var arena *gen.Arena
	if _, isBox := g.(*geom.Bounds); !isBox && r.Chance(0.4) {
		// paths as consecutive sub-slices of one backing array (see gen.InArena)
		arena = gen.InArena(g)
		g = arena.G
		c.Count("structure.shared_backing_array")
	}
	want := gen.Flatten(g)
	before := gen.DeepCopy(g)
	detail := map[string]interface{}{"geometry": gen.Dump(g)}
	if len(want) >= 2 {
		h := core.NewHasher()
		gen.HashGeom(h, g)
		c.Nontrivial(h.Sum())
	}
	// (i) instrumented affine transformer
	c.Eval()
	var seen []geom.Point
	t := proj.Transformer(func(x, y float64) (float64, float64, error) {
		seen = append(seen, geom.Point{X: x, Y: y})
		a, b := affine(x, y)
		return a, b, nil
	})
	var res geom.Geom
	var err error
	if !c.Guard("Transform:"+name, detail, func() { res, err = g.Transform(t) }) {
		if err != nil {
			c.Violate("transform-error:"+name, fmt.Sprintf("%s.Transform returned %v for a transformer that never fails", name, err), detail)
		} else {
			// expected image: same type and nesting with affine applied (Bounds -> Polygon)
			exp := image(g)
			if ok, why := gen.SameStructure(exp, res); !ok {
				detail["result"] = gen.Dump(res)
				c.Violate("structure:"+name, fmt.Sprintf("%s.Transform result differs from the vertex-wise image: %s", name, why), detail)
			}
			if len(seen) != len(want) {
				c.Violate("calls:"+name, fmt.Sprintf("%s.Transform called the transformer %d times for %d vertices", name, len(seen), len(want)), detail)
			} else {
				for i := range want {
					if !gen.BitsEqual(seen[i], want[i]) {
						c.Violate("call-order:"+name, fmt.Sprintf("%s.Transform: call %d received %s, vertex %d is %s", name, i, gen.PtStr(seen[i]), i, gen.PtStr(want[i])), detail)
						break
					}
				}
			}
		}
		if arena != nil {
			if ok, why := arena.Intact(); !ok {
				c.Violate("input-modified:shared-storage:"+name, fmt.Sprintf("%s.Transform modified its input: %s", name, why), detail)
			}
		}
		if ok, why := gen.SameStructure(before, g); !ok {
			c.Violate("input-modified:"+name, "Transform modified its input: "+why, detail)
		}
	}
	// (ii) nil transformer is the identity
	c.Eval()
	c.Count("structure.nil_transformer")
	c.Guard("Transform(nil):"+name, detail, func() {
		res, err := g.Transform(nil)
		if err != nil {
			c.Violate("nil-error:"+name, fmt.Sprintf("%s.Transform(nil) returned error %v", name, err), detail)
			return
		}
		if ok, why := gen.SameStructure(g, res); !ok {
			c.Violate("nil-identity:"+name, fmt.Sprintf("%s.Transform(nil) is not the identity: %s", name, why), detail)
		}
	})
	// (iii) failing on the k-th call, for every k
	for kf := 1; kf <= len(want); kf++ {
		c.Eval()
		c.Count("structure.failing_k")
		calls := 0
		ft := proj.Transformer(func(x, y float64) (float64, float64, error) {
			calls++
			if calls == kf {
				return math.NaN(), math.NaN(), errSentinel
			}
			a, b := affine(x, y)
			return a, b, nil
		})
		d := map[string]interface{}{"geometry": gen.Dump(g), "failing_call": kf}
		var err error
		rec := core.Try(func() { _, err = g.Transform(ft) })
		if rec != nil {
			c.Violate("fail-panic:"+name, fmt.Sprintf("%s.Transform panicked when the transformer failed on vertex %d of %d: %v", name, kf, len(want), core.Trunc(fmt.Sprint(rec), 120)), d)
			break
		}
		if err != errSentinel {
			c.Violate("fail-error-lost:"+name, fmt.Sprintf("%s.Transform returned error %v when the transformer failed on vertex %d of %d", name, err, kf, len(want)), d)
			break
		}
	}
	// (iv) a real datum-shifting transformer, vertex by vertex against fresh single-use transformers
	if len(want) > 0 && !bits && r.Chance(0.15) {
		c.Eval()
		c.Count("structure.real_transformer")
		S := "+proj=longlat +datum=potsdam +no_defs"
		D := "+proj=utm +zone=32 +ellps=intl +towgs84=-87,-98,-121 +no_defs"
		gg := mapGeom(g, func(p geom.Point) geom.Point { return geom.Point{X: 9 + p.X/1000*2.5, Y: 50 + p.Y/1000*4} })
		s, _ := proj.Parse(S)
		dd, _ := proj.Parse(D)
		d := map[string]interface{}{"geometry": gen.Dump(gg), "S": S, "D": D}
		var res geom.Geom
		var err error
		rec := core.Try(func() {
			var t proj.Transformer
			t, err = s.NewTransform(dd)
			if err == nil {
				res, err = gg.Transform(t)
			}
		})
		if rec != nil {
			c.Violate("real-panic:"+name, fmt.Sprintf("Transform with a datum-shifting transformer panicked: %v", core.Trunc(fmt.Sprint(rec), 120)), d)
			return
		}
		if err != nil {
			c.Violate("real-error:"+name, fmt.Sprintf("Transform with a datum-shifting transformer failed at valid positions: %v", err), d)
			return
		}
		got := gen.Flatten(res)
		in := gen.Flatten(gg)
		if len(got) != len(in) {
			c.Violate("real-structure:"+name, "vertex count changed", d)
			return
		}
		for i := range in {
			w := fresh(S, D, [2]float64{in[i].X, in[i].Y})
			if w.err || w.panic != "" {
				continue
			}
			if !ulpClose(got[i].X, w.x) || !ulpClose(got[i].Y, w.y) {
				which := "first"
				if i > 0 {
					which = "later"
				}
				c.Violate("real-vertex:"+which, fmt.Sprintf("%s.Transform vertex %d = (%v, %v), a fresh single-use transformer gives (%v, %v)", name, i, got[i].X, got[i].Y, w.x, w.y), d)
				return
			}
		}
	}
	if c.WantSample() && len(want) > 3 {
		c.Sample(detail)
	}
}

// image returns the expected result of Transform with the affine map.
func image(g geom.Geom) geom.Geom {
	if b, ok := g.(*geom.Bounds); ok {
		g = geom.Polygon{{b.Min, {X: b.Max.X, Y: b.Min.Y}, b.Max, {X: b.Min.X, Y: b.Max.Y}}}
	}
	return mapGeom(g, func(p geom.Point) geom.Point { x, y := affine(p.X, p.Y); return geom.Point{X: x, Y: y} })
}

func mapGeom(g geom.Geom, f func(geom.Point) geom.Point) geom.Geom {
	mp := func(ps []geom.Point) []geom.Point {
		o := make([]geom.Point, len(ps))
		for i, p := range ps {
			o[i] = f(p)
		}
		return o
	}
	switch t := g.(type) {
	case geom.Point:
		return f(t)
	case geom.MultiPoint:
		return geom.MultiPoint(mp(t))
	case geom.LineString:
		return geom.LineString(mp(t))
	case geom.MultiLineString:
		o := make(geom.MultiLineString, len(t))
		for i := range t {
			o[i] = mp(t[i])
		}
		return o
	case geom.Polygon:
		o := make(geom.Polygon, len(t))
		for i := range t {
			o[i] = mp(t[i])
		}
		return o
	case geom.MultiPolygon:
		o := make(geom.MultiPolygon, len(t))
		for i := range t {
			o[i] = mapGeom(t[i], f).(geom.Polygon)
		}
		return o
	case geom.GeometryCollection:
		o := make(geom.GeometryCollection, len(t))
		for i := range t {
			if b, ok := t[i].(*geom.Bounds); ok {
				o[i] = mapGeom(geom.Polygon{{b.Min, {X: b.Max.X, Y: b.Min.Y}, b.Max, {X: b.Min.X, Y: b.Max.Y}}}, f)
			} else {
				o[i] = mapGeom(t[i], f)
			}
		}
		return o
	case *geom.Bounds:
		return mapGeom(geom.Polygon{{t.Min, {X: t.Max.X, Y: t.Min.Y}, t.Max, {X: t.Min.X, Y: t.Max.Y}}}, f)
	}
	return g
}
