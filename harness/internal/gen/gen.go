// Package gen holds geometry generators shared by the property monitors.
package gen

import (
	"fmt"
	"math"
	"sort"
	"strconv"

	"github.com/ctessum/geom"

	"verifharness/internal/core"
	"verifharness/internal/exact"
)

// R is the PRNG type.
type R = core.Rand

// EP converts a geom point to an exact-package point.
func EP(p geom.Point) exact.P { return exact.P{X: p.X, Y: p.Y} }

// EPath converts a path.
func EPath(p []geom.Point) []exact.P {
	o := make([]exact.P, len(p))
	for i, q := range p {
		o[i] = exact.P{X: q.X, Y: q.Y}
	}
	return o
}

// OpenRing returns the ring without a repeated closing vertex.
func OpenRing(p []geom.Point) []geom.Point {
	if len(p) > 1 && p[0] == p[len(p)-1] {
		return p[:len(p)-1]
	}
	return p
}

// ERings converts all rings of polygons to exact rings (closing vertex dropped).
func ERings(polys []geom.Polygon) [][]exact.P {
	var o [][]exact.P
	for _, pg := range polys {
		for _, r := range pg {
			o = append(o, EPath(OpenRing(r)))
		}
	}
	return o
}

// Star returns a counter-clockwise star-shaped ring around (cx,cy) with n
// vertices at radii in [rmin,rmax], and the radius of a disc around the centre
// that is guaranteed to lie inside it. snap > 0 rounds coordinates to
// multiples of snap.
func Star(r *R, cx, cy, rmin, rmax float64, n int, snap float64) (geom.Path, float64) {
	for {
		angs := make([]float64, n)
		for i := range angs {
			angs[i] = 2 * math.Pi * (float64(i) + 0.85*r.Float64()) / float64(n)
		}
		off := r.Range(0, 2*math.Pi)
		ring := make(geom.Path, n)
		for i, a := range angs {
			rad := r.Range(rmin, rmax)
			x, y := cx+rad*math.Cos(a+off), cy+rad*math.Sin(a+off)
			if snap > 0 {
				x, y = math.Round(x/snap)*snap, math.Round(y/snap)*snap
			}
			ring[i] = geom.Point{X: x, Y: y}
		}
		c := exact.P{X: cx, Y: cy}
		ok := true
		inr := math.Inf(1)
		for i := 0; i < n; i++ {
			a, b := EP(ring[i]), EP(ring[(i+1)%n])
			if exact.Orient(c, a, b) <= 0 {
				ok = false
				break
			}
			inr = math.Min(inr, exact.FDistSeg(c, a, b))
		}
		if ok && inr > 0 && (snap == 0 || exact.SimpleRing(EPath(ring))) {
			return ring, inr
		}
	}
}

// Staircase returns a counter-clockwise rectilinear ring inside
// [x0,x0+w]x[y0,y0+h]: a monotone staircase from the lower left to the upper
// right closed by the right and bottom sides… built as a histogram polygon.
func Staircase(r *R, x0, y0, w, h float64, cols int) geom.Path {
	// histogram: columns of random heights standing on the x axis
	xs := make([]float64, cols+1)
	for i := range xs {
		xs[i] = x0 + w*float64(i)/float64(cols)
	}
	ring := geom.Path{{X: x0, Y: y0}, {X: x0 + w, Y: y0}}
	prev := math.NaN()
	for i := cols - 1; i >= 0; i-- {
		ht := y0 + h*(0.3+0.7*r.Float64())
		if ht == prev {
			ht += h * 0.01
		}
		ring = append(ring, geom.Point{X: xs[i+1], Y: ht}, geom.Point{X: xs[i], Y: ht})
		prev = ht
	}
	// remove duplicate consecutive vertices (none by construction) and return
	return ring
}

// Comb returns a counter-clockwise comb-shaped (non-star) ring with the given
// number of teeth inside [x0,x0+w]x[y0,y0+h].
func Comb(r *R, x0, y0, w, h float64, teeth int) geom.Path {
	ring := geom.Path{{X: x0, Y: y0}, {X: x0 + w, Y: y0}}
	base := y0 + h*r.Range(0.15, 0.3)
	tw := w / float64(2*teeth-1)
	// walk from right to left along the top
	for i := teeth - 1; i >= 0; i-- {
		xl := x0 + float64(2*i)*tw
		xr := xl + tw
		top := y0 + h*r.Range(0.6, 1.0)
		// slight slant so edges are not axis-parallel everywhere
		sl := tw * r.Range(-0.2, 0.2)
		ring = append(ring, geom.Point{X: xr, Y: base}, geom.Point{X: xr + sl*0.5, Y: top}, geom.Point{X: xl + sl*0.5, Y: top}, geom.Point{X: xl, Y: base})
	}
	// drop the duplicated corners at base level that coincide with the frame
	out := geom.Path{ring[0], ring[1]}
	for _, p := range ring[2:] {
		if p == out[len(out)-1] {
			continue
		}
		out = append(out, p)
	}
	// first appended is (x0+w, base): fine. last is (x0, base): fine.
	return out
}

// Respell returns the ring with a random start vertex, optional reversal and
// optional repeated closing vertex. The input must be open (no closing vertex).
func Respell(r *R, ring geom.Path, reverse bool, rot int, closed bool) geom.Path {
	n := len(ring)
	o := make(geom.Path, 0, n+1)
	for i := 0; i < n; i++ {
		o = append(o, ring[(i+rot)%n])
	}
	if reverse {
		for i, j := 0, len(o)-1; i < j; i, j = i+1, j-1 {
			o[i], o[j] = o[j], o[i]
		}
	}
	if closed {
		o = append(o, o[0])
	}
	return o
}

// RespellRandom applies a random spelling.
func RespellRandom(r *R, ring geom.Path) geom.Path {
	return Respell(r, ring, r.Bool(), r.Intn(len(ring)), r.Bool())
}

// Shape describes a generated valid polygon.
type Shape struct {
	Poly   geom.Polygon // shell first, then holes; spelling randomised
	Cx, Cy float64
	InR    float64 // a disc of this radius around (Cx,Cy) is inside the shell (ignoring holes)
	OutR   float64 // everything lies within this radius of the centre
	Kind   string
	Holes  []Disc // a disc strictly inside each hole, and one containing it
}

// Disc describes a hole: (X,Y) centre, In = radius of a disc inside the hole,
// Out = radius of a disc containing the hole.
type Disc struct{ X, Y, In, Out float64 }

// StarPolygon builds a valid polygon: a star shell with nholes star holes
// placed in disjoint discs inside the shell's inscribed disc.
func StarPolygon(r *R, cx, cy, rad float64, nverts, nholes int, snap float64) Shape {
	shell, inr := Star(r, cx, cy, rad*r.Range(0.45, 0.8), rad, nverts, snap)
	sh := Shape{Cx: cx, Cy: cy, InR: inr, OutR: rad * 1.001, Kind: "star"}
	pg := geom.Polygon{RespellRandom(r, shell)}
	if nholes > 0 {
		phase := r.Range(0, 2*math.Pi)
		for k := 0; k < nholes && k < 3; k++ {
			a := phase + 2*math.Pi*float64(k)/3
			hx, hy := cx+0.5*inr*math.Cos(a), cy+0.5*inr*math.Sin(a)
			hr := 0.28 * inr
			hole, hin := Star(r, hx, hy, hr*0.4, hr, r.IntRange(3, 8), snap)
			pg = append(pg, RespellRandom(r, hole))
			sh.Holes = append(sh.Holes, Disc{X: hx, Y: hy, In: hin, Out: hr})
		}
		if nholes > 3 {
			nholes = 3
		}
	}
	sh.Poly = pg
	return sh
}

// Dist between points.
func Dist(a, b geom.Point) float64 { return math.Hypot(a.X-b.X, a.Y-b.Y) }

// num renders a float for JSON samples: a number when finite, else a string.
func num(f float64) interface{} {
	if math.IsNaN(f) || math.IsInf(f, 0) {
		return fmt.Sprintf("%v(0x%016x)", f, math.Float64bits(f))
	}
	return f
}

func dumpPts(p []geom.Point) []interface{} {
	o := make([]interface{}, len(p))
	for i, q := range p {
		o[i] = []interface{}{num(q.X), num(q.Y)}
	}
	return o
}

// Dump renders a geometry as a JSON-friendly value (witnesses and samples).
func Dump(g geom.Geom) interface{} {
	switch t := g.(type) {
	case nil:
		return nil
	case geom.Point:
		return map[string]interface{}{"type": "Point", "c": []interface{}{num(t.X), num(t.Y)}}
	case *geom.Point:
		return map[string]interface{}{"type": "*Point", "c": []interface{}{num(t.X), num(t.Y)}}
	case geom.MultiPoint:
		return map[string]interface{}{"type": "MultiPoint", "c": dumpPts(t)}
	case geom.LineString:
		return map[string]interface{}{"type": "LineString", "c": dumpPts(t)}
	case geom.MultiLineString:
		o := make([]interface{}, len(t))
		for i, l := range t {
			o[i] = dumpPts(l)
		}
		return map[string]interface{}{"type": "MultiLineString", "c": o}
	case geom.Polygon:
		o := make([]interface{}, len(t))
		for i, l := range t {
			o[i] = dumpPts(l)
		}
		return map[string]interface{}{"type": "Polygon", "c": o}
	case geom.MultiPolygon:
		o := make([]interface{}, len(t))
		for i, pg := range t {
			oo := make([]interface{}, len(pg))
			for j, l := range pg {
				oo[j] = dumpPts(l)
			}
			o[i] = oo
		}
		return map[string]interface{}{"type": "MultiPolygon", "c": o}
	case geom.GeometryCollection:
		o := make([]interface{}, len(t))
		for i, m := range t {
			o[i] = Dump(m)
		}
		return map[string]interface{}{"type": "GeometryCollection", "members": o}
	case *geom.Bounds:
		if t == nil {
			return map[string]interface{}{"type": "*Bounds(nil)"}
		}
		return map[string]interface{}{"type": "*Bounds", "min": []interface{}{num(t.Min.X), num(t.Min.Y)}, "max": []interface{}{num(t.Max.X), num(t.Max.Y)}}
	}
	return fmt.Sprintf("%T %v", g, g)
}

// HashGeom mixes a geometry (type, nesting, coordinate bits) into h.
func HashGeom(h *core.Hasher, g geom.Geom) {
	switch t := g.(type) {
	case nil:
		h.Str("nil")
	case geom.Point:
		h.Str("P").F64(t.X).F64(t.Y)
	case geom.MultiPoint:
		h.Str("MP").Int(len(t))
		for _, p := range t {
			h.F64(p.X).F64(p.Y)
		}
	case geom.LineString:
		h.Str("LS").Int(len(t))
		for _, p := range t {
			h.F64(p.X).F64(p.Y)
		}
	case geom.MultiLineString:
		h.Str("MLS").Int(len(t))
		for _, l := range t {
			HashGeom(h, l)
		}
	case geom.Polygon:
		h.Str("PG").Int(len(t))
		for _, l := range t {
			HashGeom(h, geom.LineString(l))
		}
	case geom.MultiPolygon:
		h.Str("MPG").Int(len(t))
		for _, l := range t {
			HashGeom(h, l)
		}
	case geom.GeometryCollection:
		h.Str("GC").Int(len(t))
		for _, l := range t {
			HashGeom(h, l)
		}
	case *geom.Bounds:
		h.Str("B").F64(t.Min.X).F64(t.Min.Y).F64(t.Max.X).F64(t.Max.Y)
	default:
		h.Str(fmt.Sprintf("%T", g))
	}
}

// Flatten returns the vertices of g in storage order, computed by the
// harness (independent of g.Points()).
func Flatten(g geom.Geom) []geom.Point {
	var o []geom.Point
	switch t := g.(type) {
	case geom.Point:
		o = append(o, t)
	case geom.MultiPoint:
		o = append(o, t...)
	case geom.LineString:
		o = append(o, t...)
	case geom.MultiLineString:
		for _, l := range t {
			o = append(o, l...)
		}
	case geom.Polygon:
		for _, l := range t {
			o = append(o, l...)
		}
	case geom.MultiPolygon:
		for _, pg := range t {
			for _, l := range pg {
				o = append(o, l...)
			}
		}
	case geom.GeometryCollection:
		for _, m := range t {
			o = append(o, Flatten(m)...)
		}
	case *geom.Bounds:
		if t.Max.X < t.Min.X || t.Max.Y < t.Min.Y {
			break // an empty box has no corners
		}
		o = append(o, t.Min, geom.Point{X: t.Max.X, Y: t.Min.Y}, t.Max, geom.Point{X: t.Min.X, Y: t.Max.Y})
	}
	return o
}

// BitsEqual compares two points bit for bit.
func BitsEqual(a, b geom.Point) bool {
	return math.Float64bits(a.X) == math.Float64bits(b.X) && math.Float64bits(a.Y) == math.Float64bits(b.Y)
}

// SameStructure reports whether a and b have identical dynamic types,
// nesting, lengths and coordinate bit patterns (empty slices compared by
// length, not nil-ness). It returns a description of the first difference.
func SameStructure(a, b geom.Geom) (bool, string) {
	pts := func(x, y []geom.Point, where string) (bool, string) {
		if len(x) != len(y) {
			return false, fmt.Sprintf("%s: %d vs %d vertices", where, len(x), len(y))
		}
		for i := range x {
			if !BitsEqual(x[i], y[i]) {
				return false, fmt.Sprintf("%s: vertex %d differs: %s vs %s", where, i, PtStr(x[i]), PtStr(y[i]))
			}
		}
		return true, ""
	}
	switch t := a.(type) {
	case nil:
		if b == nil {
			return true, ""
		}
		return false, fmt.Sprintf("nil vs %T", b)
	case geom.Point:
		u, ok := b.(geom.Point)
		if !ok {
			return false, fmt.Sprintf("type %T vs %T", a, b)
		}
		return pts([]geom.Point{t}, []geom.Point{u}, "Point")
	case geom.MultiPoint:
		u, ok := b.(geom.MultiPoint)
		if !ok {
			return false, fmt.Sprintf("type %T vs %T", a, b)
		}
		return pts(t, u, "MultiPoint")
	case geom.LineString:
		u, ok := b.(geom.LineString)
		if !ok {
			return false, fmt.Sprintf("type %T vs %T", a, b)
		}
		return pts(t, u, "LineString")
	case geom.MultiLineString:
		u, ok := b.(geom.MultiLineString)
		if !ok {
			return false, fmt.Sprintf("type %T vs %T", a, b)
		}
		if len(t) != len(u) {
			return false, fmt.Sprintf("MultiLineString: %d vs %d members", len(t), len(u))
		}
		for i := range t {
			if ok, d := pts(t[i], u[i], fmt.Sprintf("MultiLineString[%d]", i)); !ok {
				return false, d
			}
		}
		return true, ""
	case geom.Polygon:
		u, ok := b.(geom.Polygon)
		if !ok {
			return false, fmt.Sprintf("type %T vs %T", a, b)
		}
		if len(t) != len(u) {
			return false, fmt.Sprintf("Polygon: %d vs %d rings", len(t), len(u))
		}
		for i := range t {
			if ok, d := pts(t[i], u[i], fmt.Sprintf("Polygon[%d]", i)); !ok {
				return false, d
			}
		}
		return true, ""
	case geom.MultiPolygon:
		u, ok := b.(geom.MultiPolygon)
		if !ok {
			return false, fmt.Sprintf("type %T vs %T", a, b)
		}
		if len(t) != len(u) {
			return false, fmt.Sprintf("MultiPolygon: %d vs %d members", len(t), len(u))
		}
		for i := range t {
			if ok, d := SameStructure(t[i], u[i]); !ok {
				return false, fmt.Sprintf("MultiPolygon[%d]: %s", i, d)
			}
		}
		return true, ""
	case geom.GeometryCollection:
		u, ok := b.(geom.GeometryCollection)
		if !ok {
			return false, fmt.Sprintf("type %T vs %T", a, b)
		}
		if len(t) != len(u) {
			return false, fmt.Sprintf("GeometryCollection: %d vs %d members", len(t), len(u))
		}
		for i := range t {
			if ok, d := SameStructure(t[i], u[i]); !ok {
				return false, fmt.Sprintf("GeometryCollection[%d]: %s", i, d)
			}
		}
		return true, ""
	case *geom.Bounds:
		u, ok := b.(*geom.Bounds)
		if !ok {
			return false, fmt.Sprintf("type %T vs %T", a, b)
		}
		return pts([]geom.Point{t.Min, t.Max}, []geom.Point{u.Min, u.Max}, "Bounds")
	}
	return false, fmt.Sprintf("unsupported type %T", a)
}

// PtStr prints a point with bit-exact decimal coordinates.
func PtStr(p geom.Point) string {
	return "(" + strconv.FormatFloat(p.X, 'g', -1, 64) + "," + strconv.FormatFloat(p.Y, 'g', -1, 64) + ")"
}

// DeepCopy returns a structurally identical copy sharing no memory with g.
func DeepCopy(g geom.Geom) geom.Geom {
	cp := func(p []geom.Point) []geom.Point {
		if p == nil {
			return nil
		}
		o := make([]geom.Point, len(p))
		copy(o, p)
		return o
	}
	switch t := g.(type) {
	case geom.Point:
		return t
	case geom.MultiPoint:
		return geom.MultiPoint(cp(t))
	case geom.LineString:
		return geom.LineString(cp(t))
	case geom.MultiLineString:
		if t == nil {
			return t
		}
		o := make(geom.MultiLineString, len(t))
		for i := range t {
			o[i] = cp(t[i])
		}
		return o
	case geom.Polygon:
		if t == nil {
			return t
		}
		o := make(geom.Polygon, len(t))
		for i := range t {
			o[i] = cp(t[i])
		}
		return o
	case geom.MultiPolygon:
		if t == nil {
			return t
		}
		o := make(geom.MultiPolygon, len(t))
		for i := range t {
			o[i] = DeepCopy(t[i]).(geom.Polygon)
		}
		return o
	case geom.GeometryCollection:
		if t == nil {
			return t
		}
		o := make(geom.GeometryCollection, len(t))
		for i := range t {
			o[i] = DeepCopy(t[i])
		}
		return o
	case *geom.Bounds:
		return &geom.Bounds{Min: t.Min, Max: t.Max}
	}
	return g
}

// Kinds of geometry for RandGeom.
const (
	KPoint = iota
	KMultiPoint
	KLineString
	KMultiLineString
	KPolygon
	KMultiPolygon
	KCollection
	KBounds
)

// GeomOpts controls RandGeom.
type GeomOpts struct {
	Kinds      []int                 // allowed kinds at top level (nil = the seven encodable ones)
	Coord      func(r *R) float64    // coordinate source
	MaxMembers int                   // members per level
	MaxVerts   int                   // vertices per path
	MinVerts   int                   // minimum vertices per path (0 allows empty members)
	MinMembers int                   // minimum members per multi geometry
	MaxDepth   int                   // nesting depth of collections
	InnerKinds []int                 // kinds allowed inside collections (nil = Kinds)
	Point      func(r *R) geom.Point // optional override for whole points
	BigPath    float64               // probability that a path gets a BigLen length (63 .. 65537)
	EmptyBoxes float64               // probability that a *Bounds is an empty box (the canonical one or Min beyond Max)
}

func (o *GeomOpts) pt(r *R) geom.Point {
	if o.Point != nil {
		return o.Point(r)
	}
	if r.Chance(0.05) {
		// the same value in both ordinates (special values are then special in both)
		v := o.Coord(r)
		return geom.Point{X: v, Y: v}
	}
	return geom.Point{X: o.Coord(r), Y: o.Coord(r)}
}

func (o *GeomOpts) path(r *R) []geom.Point {
	n := r.IntRange(o.MinVerts, o.MaxVerts)
	if o.MinVerts == 0 && r.Chance(0.25) {
		n = 0
	}
	if o.BigPath > 0 && r.Chance(o.BigPath) {
		n = BigLen(r)
	}
	p := make([]geom.Point, n)
	for i := range p {
		p[i] = o.pt(r)
	}
	return p
}

func (o *GeomOpts) members(r *R) int {
	n := r.IntRange(o.MinMembers, o.MaxMembers)
	if o.MinMembers == 0 && r.Chance(0.15) {
		n = 0
	}
	return n
}

// RandGeom draws a random geometry.
func RandGeom(r *R, o *GeomOpts, depth int) geom.Geom {
	kinds := o.Kinds
	if depth > 0 && o.InnerKinds != nil {
		kinds = o.InnerKinds
	}
	if kinds == nil {
		kinds = []int{KPoint, KMultiPoint, KLineString, KMultiLineString, KPolygon, KMultiPolygon, KCollection}
	}
	k := kinds[r.Intn(len(kinds))]
	if k == KCollection && depth >= o.MaxDepth {
		k = kinds[r.Intn(len(kinds))]
		if k == KCollection {
			k = KPoint
		}
	}
	return RandGeomKind(r, o, k, depth)
}

// RandGeomKind draws a random geometry of the given kind.
func RandGeomKind(r *R, o *GeomOpts, k, depth int) geom.Geom {
	switch k {
	case KPoint:
		return o.pt(r)
	case KMultiPoint:
		return geom.MultiPoint(o.path(r))
	case KLineString:
		return geom.LineString(o.path(r))
	case KMultiLineString:
		n := o.members(r)
		m := make(geom.MultiLineString, n)
		for i := range m {
			m[i] = o.path(r)
		}
		return m
	case KPolygon:
		n := o.members(r)
		m := make(geom.Polygon, n)
		for i := range m {
			m[i] = o.path(r)
		}
		return m
	case KMultiPolygon:
		n := o.members(r)
		m := make(geom.MultiPolygon, n)
		for i := range m {
			nn := o.members(r)
			m[i] = make(geom.Polygon, nn)
			for j := range m[i] {
				m[i][j] = o.path(r)
			}
		}
		return m
	case KCollection:
		n := o.members(r)
		m := make(geom.GeometryCollection, n)
		for i := range m {
			m[i] = RandGeom(r, o, depth+1)
		}
		return m
	case KBounds:
		a, b := o.pt(r), o.pt(r)
		if o.EmptyBoxes > 0 && r.Chance(o.EmptyBoxes) {
			// an empty box: it holds no point and has no corners
			if r.Bool() {
				return geom.NewBounds()
			}
			e := &geom.Bounds{Min: geom.Point{X: math.Max(a.X, b.X), Y: math.Min(a.Y, b.Y)}, Max: geom.Point{X: math.Min(a.X, b.X), Y: math.Max(a.Y, b.Y)}}
			if e.Min.X > e.Max.X {
				return e
			}
			return geom.NewBounds()
		}
		return &geom.Bounds{Min: geom.Point{X: math.Min(a.X, b.X), Y: math.Min(a.Y, b.Y)}, Max: geom.Point{X: math.Max(a.X, b.X), Y: math.Max(a.Y, b.Y)}}
	}
	return o.pt(r)
}

// BitsCoord returns an arbitrary 64-bit pattern as float64, biased towards
// special values.
func BitsCoord(r *R) float64 {
	switch r.Intn(12) {
	case 0:
		return math.Copysign(0, -1)
	case 1:
		return math.Inf(1 - 2*r.Intn(2))
	case 2:
		// NaN: the canonical patterns other software writes (IEEE default quiet NaN - also the
		// PostGIS/GEOS "empty point" marker -, Go's math.NaN, the x86 default NaN, a signalling
		// NaN), or a random payload (quiet or signalling)
		if r.Bool() {
			return math.Float64frombits([]uint64{0x7ff8000000000000, 0x7ff8000000000001, 0xfff8000000000000, 0x7ff0000000000001}[r.Intn(4)])
		}
		return math.Float64frombits(0x7ff0000000000000 | (r.Uint64() & 0x000fffffffffffff) | 1 | (uint64(r.Intn(2)) << 63))
	case 3:
		return math.Float64frombits(r.Uint64() & 0x000fffffffffffff) // subnormal
	case 4:
		return float64(r.IntRange(-1000, 1000))
	case 5:
		return math.MaxFloat64 * float64(1-2*r.Intn(2))
	case 6:
		return float64(math.Float32frombits(uint32(r.Uint64()))) // single-precision values (incl. float32 NaN/Inf widened)
	default:
		return math.Float64frombits(r.Uint64())
	}
}

// FiniteBitsCoord returns an arbitrary finite float64 pattern.
func FiniteBitsCoord(r *R) float64 {
	for {
		var f float64
		switch r.Intn(15) {
		case 14:
			// the top of the range (the corners of a "whole plane" rectangle): +-MaxFloat64, the
			// doubles just below it, its half, and values in the last binade - two such ordinates
			// in one position have a norm beyond the float64 range
			switch r.Intn(4) {
			case 0:
				f = math.MaxFloat64
			case 1:
				f = math.Float64frombits(math.Float64bits(math.MaxFloat64) - uint64(r.IntRange(1, 1000)))
			case 2:
				f = math.MaxFloat64 / 2
			default:
				f = r.Range(0.9e308, 1.797e308)
			}
			f *= float64(1 - 2*r.Intn(2))
		case 13:
			// the doubles within a few ulps (up to 2^20 ulps) of a limit that code likes to test
			// against: +-180, +-90, +-360, +-1, +-0.5, +-85, +-1e6 - just inside and just outside
			v := []float64{180, 90, 360, 1, 0.5, 85, 1e6, 100, 1000}[r.Intn(9)] * float64(1-2*r.Intn(2))
			steps := 1 << uint(r.Intn(21))
			if r.Bool() {
				steps = r.IntRange(1, 4)
			}
			bits := math.Float64bits(v)
			if r.Bool() {
				bits += uint64(steps)
			} else {
				bits -= uint64(steps)
			}
			f = math.Float64frombits(bits)
		case 11:
			// fixed-point data scaled by multiplication (degrees stored as 1e-7 / 1e-6 / 1e-5 units,
			// millimetres as 1e-3): float64(n)*1e-k is often the NEIGHBOUR of the double nearest
			// to the decimal n/10^k, so its shortest decimal spelling is a long one
			k := []float64{1e-7, 1e-7, 1e-6, 1e-5, 1e-3, 1e-2, 1e-9}[r.Intn(7)]
			n := r.IntRange(-2147483647, 2147483647)
			if r.Bool() {
				n = r.IntRange(-1800000000, 1800000000)
			}
			f = float64(n) * k
		case 12:
			// the doubles next to a short decimal (1-7 places)
			d := math.Round(r.Range(-215, 215)*math.Pow(10, float64(r.IntRange(1, 7)))) / math.Pow(10, float64(r.IntRange(1, 7)))
			f = math.Nextafter(d, math.Inf(1-2*r.Intn(2)))
		case 0:
			f = math.Copysign(0, -1)
		case 1:
			f = math.Float64frombits(r.Uint64() & 0x000fffffffffffff)
		case 2:
			f = float64(r.IntRange(-1000, 1000))
		case 3:
			f = r.Range(-180, 180)
		case 4:
			f = math.Pow(10, r.Range(-300, 300)) * float64(1-2*r.Intn(2))
		case 5:
			// exactly representable in single precision (data read from float32 grids): the
			// shortest float32 spelling of such a value does not parse back to the same float64
			f = float64(float32(r.Range(-1000, 1000)))
			if r.Chance(0.3) {
				f = float64(math.Float32frombits(uint32(r.Uint64())))
			}
		case 7:
			// whole numbers around the limits of the integer types (2^31, 2^53, 2^63, 2^64)
			k := []int{24, 31, 32, 52, 53, 54, 62, 63, 64, 65}[r.Intn(10)]
			f = math.Ldexp(1, k) * r.Range(0.5, 2)
			f = math.Trunc(f) * float64(1-2*r.Intn(2))
		case 6:
			// short decimal values (1 to 6 decimals), as typed by people
			f = math.Round(r.Range(-1000, 1000)*math.Pow(10, float64(r.Intn(7)))) / math.Pow(10, float64(r.Intn(7)))
		default:
			f = math.Float64frombits(r.Uint64())
		}
		if !math.IsNaN(f) && !math.IsInf(f, 0) {
			return f
		}
	}
}

// SortedCopy returns a sorted copy of xs.
func SortedCopy(xs []float64) []float64 {
	o := append([]float64(nil), xs...)
	sort.Float64s(o)
	return o
}

// Arena is a geometry whose paths are consecutive sub-slices of ONE backing
// array (ring k is buf[off:off+n], so its spare capacity is the storage of the
// rings that follow), followed by a few sentinel slots. This is how rings look
// when they are sliced out of a flat coordinate buffer; code that appends to a
// path it was handed writes into the next path.
type Arena struct {
	G    geom.Geom
	buf  []geom.Point
	orig []geom.Point
}

// InArena returns a copy of g laid out in one backing array.
func InArena(g geom.Geom) *Arena {
	n := len(Flatten(g))
	a := &Arena{buf: make([]geom.Point, n+4)}
	for i := n; i < n+4; i++ {
		a.buf[i] = geom.Point{X: 7.25e11 + float64(i-n), Y: -3.5e11}
	}
	off := 0
	cp := func(p []geom.Point) []geom.Point {
		if p == nil {
			return nil
		}
		o := a.buf[off : off+len(p)]
		copy(o, p)
		off += len(p)
		return o
	}
	var lay func(g geom.Geom) geom.Geom
	lay = func(g geom.Geom) geom.Geom {
		switch t := g.(type) {
		case geom.MultiPoint:
			return geom.MultiPoint(cp(t))
		case geom.LineString:
			return geom.LineString(cp(t))
		case geom.MultiLineString:
			if t == nil {
				return t
			}
			o := make(geom.MultiLineString, len(t))
			for i := range t {
				o[i] = cp(t[i])
			}
			return o
		case geom.Polygon:
			if t == nil {
				return t
			}
			o := make(geom.Polygon, len(t))
			for i := range t {
				o[i] = cp(t[i])
			}
			return o
		case geom.MultiPolygon:
			if t == nil {
				return t
			}
			o := make(geom.MultiPolygon, len(t))
			for i := range t {
				o[i] = lay(t[i]).(geom.Polygon)
			}
			return o
		case geom.GeometryCollection:
			if t == nil {
				return t
			}
			o := make(geom.GeometryCollection, len(t))
			for i := range t {
				o[i] = lay(t[i])
			}
			return o
		}
		return DeepCopy(g)
	}
	a.G = lay(g)
	a.orig = append([]geom.Point{}, a.buf...)
	return a
}

// Intact reports whether the backing array (paths and sentinels) is unchanged.
func (a *Arena) Intact() (bool, string) {
	for i := range a.buf {
		if !BitsEqual(a.buf[i], a.orig[i]) {
			return false, fmt.Sprintf("slot %d of the shared backing array changed from %s to %s", i, PtStr(a.orig[i]), PtStr(a.buf[i]))
		}
	}
	return true, ""
}

// BigLens are path lengths on both sides of the sizes at which implementations
// typically switch strategy (chunked reads, worker pools, pooled buffers).
var BigLens = []int{63, 64, 65, 255, 256, 257, 1023, 1025, 4095, 4096, 4097, 4098, 4099, 5001, 8191, 8193, 10002, 16385, 65537}

// BigLen draws one of BigLens, the smaller ones more often.
func BigLen(r *R) int {
	if r.Chance(0.5) {
		return BigLens[r.Intn(8)]
	}
	return BigLens[r.Intn(len(BigLens))]
}

// EdgePos draws a position in a path of n vertices that is likely to sit next
// to a chunk boundary: the first and last few, and around n/4, n/2, 3n/4.
func EdgePos(r *R, n int) int {
	var k int
	switch r.Intn(6) {
	case 0:
		k = r.Intn(4)
	case 1, 2:
		k = n - 1 - r.Intn(4)
	case 3:
		k = []int{n / 4, n / 2, 3 * n / 4}[r.Intn(3)] + r.IntRange(-2, 1)
	case 4:
		k = []int{64, 256, 1024, 4096, 8192}[r.Intn(5)] + r.IntRange(-2, 1)
	default:
		k = r.Intn(n)
	}
	if k < 0 {
		k = 0
	}
	if k >= n {
		k = n - 1
	}
	return k
}

// BigCounts are member counts on both sides of, and exact multiples of, typical batch sizes.
var BigCounts = []int{127, 128, 129, 255, 256, 257, 1023, 1024, 1025, 1152, 1280, 2047, 2048, 2049, 4096, 8192}

// ManyMembers builds a multi-part geometry of kind k (KMultiPoint, KMultiLineString,
// KPolygon, KMultiPolygon) with one of BigCounts members of 1-3 vertices each.
func ManyMembers(r *R, k int, coord func(*R) float64) geom.Geom {
	n := BigCounts[r.Intn(len(BigCounts))]
	path := func() []geom.Point {
		p := make([]geom.Point, r.IntRange(1, 3))
		for i := range p {
			p[i] = geom.Point{X: coord(r), Y: coord(r)}
		}
		return p
	}
	switch k {
	case KMultiPoint:
		p := make(geom.MultiPoint, n)
		for i := range p {
			p[i] = geom.Point{X: coord(r), Y: coord(r)}
		}
		return p
	case KMultiLineString:
		m := make(geom.MultiLineString, n)
		for i := range m {
			m[i] = path()
		}
		return m
	case KPolygon:
		m := make(geom.Polygon, n)
		for i := range m {
			m[i] = path()
		}
		return m
	default:
		m := make(geom.MultiPolygon, 0, n)
		if r.Bool() { // many polygons of one ring
			for i := 0; i < n; i++ {
				m = append(m, geom.Polygon{path()})
			}
		} else { // few polygons, one of them with many rings
			m = append(m, geom.Polygon{path()})
			pg := make(geom.Polygon, n)
			for i := range pg {
				pg[i] = path()
			}
			m = append(m, pg, geom.Polygon{path(), path()})
		}
		return m
	}
}

// CloseWithOtherZero makes, with probability prob, the last vertex of p equal to the first one
// numerically but not bit for bit: a zero ordinate with the opposite sign (a closing vertex that
// was computed rather than copied). Paths of fewer than two vertices are left alone.
func CloseWithOtherZero(r *R, p []geom.Point, prob float64) bool {
	if len(p) < 2 || !r.Chance(prob) {
		return false
	}
	f := p[0]
	if r.Bool() {
		f.X = math.Copysign(0, float64(1-2*r.Intn(2)))
	} else {
		f.Y = math.Copysign(0, float64(1-2*r.Intn(2)))
	}
	if r.Chance(0.3) {
		f.X, f.Y = math.Copysign(0, float64(1-2*r.Intn(2))), math.Copysign(0, float64(1-2*r.Intn(2)))
	}
	l := f
	if f.X == 0 {
		l.X = -f.X
	}
	if f.Y == 0 && (f.X != 0 || r.Bool()) {
		l.Y = -f.Y
	}
	p[0], p[len(p)-1] = f, l
	return true
}
