// Package c17 monitors property C17: WKT output is well-formed OGC text that
// parses back to the same geometry.
package c17

import (
	"fmt"
	"math"
	"strconv"
	"strings"

	"github.com/ctessum/geom"
	"github.com/ctessum/geom/encoding/wkt"

	"verifharness/internal/core"
	"verifharness/internal/gen"
	"verifharness/internal/refcodec"
)

func init() {
	core.Register(&core.Prop{
		ID: "C17",
		Rule: "case = one random Point/LineString/MultiLineString/Polygon/MultiPolygon (1-6 members, 1-8 vertices per member, arbitrary finite float64 bit patterns) whose wkt.Encode text is parsed by the harness's independent OGC WKT parser and compared bitwise, or one unsupported geometry (MultiPoint, GeometryCollection, *Bounds) that must be rejected; " +
			"non-trivial = text containing an exponent-form numeral or a 17-significant-digit numeral or more than one member; distinct by content hash",
		Assumptions: []string{"independent parser implements the OGC 06-103r4 tagged-text grammar for 2-D geometries", "empty members are outside the quantifier"},
		Phases: []core.Phase{{Name: "encode", NumCases: func(t string) int {
			if t == "thorough" {
				return 3000000
			}
			return 60000
		}}},
		Run:   run,
		Setup: func(c *core.Ctx) { c.State = &aliasState{} },
		Floors: func(t string) map[string]int64 {
			return map[string]int64{"numeral.exponent": 1000, "numeral.17digits": 1000, "unsupported.rejected": 100, "members>1": 1000, "members.many": 100, "paths.end_a_hair_off_their_start": 2000,
				"type.Point": 100, "type.LineString": 100, "type.MultiLineString": 100, "type.Polygon": 100, "type.MultiPolygon": 100}
		},
	})
}

func run(c *core.Ctx, idx int) {
	r := c.R
	c.Eval()
	if r.Chance(0.08) {
		// unsupported types must be rejected with an error
		o := &gen.GeomOpts{Coord: gen.FiniteBitsCoord, MaxMembers: 3, MaxVerts: 4, MinVerts: 1, MinMembers: 1, MaxDepth: 2}
		k := []int{gen.KMultiPoint, gen.KCollection, gen.KBounds}[r.Intn(3)]
		g := gen.RandGeomKind(r, o, k, 0)
		if r.Chance(0.1) {
			g = nil // no geometry at all
			c.Count("unsupported.nil_geometry")
		}
		detail := map[string]interface{}{"geometry": gen.Dump(g)}
		c.Guard("wkt.Encode(unsupported)", detail, func() {
			b, err := wkt.Encode(g)
			if err == nil {
				c.Violate(fmt.Sprintf("unsupported-accepted:%T", g), fmt.Sprintf("wkt.Encode(%T) returned text %q instead of an error", g, core.Trunc(string(b), 80)), detail)
			} else {
				_ = err.Error() // the error must be reportable
				c.Count("unsupported.rejected")
			}
		})
		return
	}
	o := &gen.GeomOpts{Coord: gen.FiniteBitsCoord, MaxMembers: 6, MaxVerts: 8, MinVerts: 1, MinMembers: 1}
	if r.Chance(0.3) {
		o.Coord = func(r *gen.R) float64 { return r.Range(-180, 180) } // 17-digit values
	}
	if r.Chance(0.02) {
		o.BigPath, o.MaxMembers = 0.3, 2 // paths of 63 .. 65537 vertices (documents beyond 4 KiB / 64 KiB / 1 MiB buffers)
		o.MaxVerts = 1500                // long coordinate lists
	}
	k := []int{gen.KPoint, gen.KLineString, gen.KMultiLineString, gen.KPolygon, gen.KMultiPolygon}[r.Intn(5)]
	g := gen.RandGeomKind(r, o, k, 0)
	if k != gen.KPoint && k != gen.KLineString && r.Chance(0.012) {
		// hundreds to thousands of small members (counts on both sides of / multiples of 128 .. 8192)
		g = gen.ManyMembers(r, k, o.Coord)
		c.Count("members.many")
	}
	if r.Chance(0.15) {
		// paths that end a hair off their start: the last vertex is the first one moved by 1..8
		// ulps in one or both ordinates (a ring whose closing vertex was computed, not copied -
		// a circle walked from 0 to 2 pi): it is a different vertex and must be written as such
		hair := func(p geom.Path) {
			if len(p) < 3 {
				return
			}
			q := p[0]
			nudge := func(v float64) float64 {
				if v == 0 || math.IsInf(v, 0) {
					return v
				}
				return math.Float64frombits(math.Float64bits(v) + uint64(r.IntRange(1, 8)) - uint64(8*r.Intn(2)))
			}
			switch r.Intn(3) {
			case 0:
				q.X = nudge(q.X)
			case 1:
				q.Y = nudge(q.Y)
			default:
				q.X, q.Y = nudge(q.X), nudge(q.Y)
			}
			if !math.IsNaN(q.X) && !math.IsNaN(q.Y) && !math.IsInf(q.X, 0) && !math.IsInf(q.Y, 0) {
				p[len(p)-1] = q
			}
		}
		switch t := g.(type) {
		case geom.LineString:
			hair(geom.Path(t))
		case geom.MultiLineString:
			for _, m := range t {
				hair(geom.Path(m))
			}
		case geom.Polygon:
			for _, m := range t {
				hair(m)
			}
		case geom.MultiPolygon:
			for _, pg := range t {
				for _, m := range pg {
					hair(m)
				}
			}
		}
		c.Count("paths.end_a_hair_off_their_start")
	}
	switch t := g.(type) {
	case geom.Polygon:
		for _, m := range t {
			gen.CloseWithOtherZero(r, m, 0.1)
		}
	case geom.MultiPolygon:
		for _, pg := range t {
			for _, m := range pg {
				gen.CloseWithOtherZero(r, m, 0.1)
			}
		}
	case geom.MultiLineString:
		for _, m := range t {
			gen.CloseWithOtherZero(r, m, 0.05)
		}
	}
	name := fmt.Sprintf("%T", g)[5:]
	c.Count("type." + name)
	detail := map[string]interface{}{"geometry": gen.Dump(g)}
	var txt []byte
	var err error
	if c.Guard("wkt.Encode:"+name, detail, func() { txt, err = wkt.Encode(g) }) {
		return
	}
	if err != nil {
		c.Violate("encode-error:"+name, fmt.Sprintf("wkt.Encode(%s) error: %v", name, err), detail)
		return
	}
	if st, ok := c.State.(*aliasState); ok {
		if st.prev != nil && string(st.prev) != st.prevCopy {
			c.Violate("encode-output-mutated", "the bytes returned by an earlier wkt.Encode call changed after a later call", map[string]interface{}{"earlier_text": st.prevCopy, "now": string(st.prev)})
		}
		st.prev, st.prevCopy = txt, string(txt)
	}
	s := string(txt)
	detail["text"] = core.Trunc(s, 2000)
	nontrivial := false
	if strings.ContainsAny(s, "eE") && strings.Contains(s, "e") {
		c.Count("numeral.exponent")
		nontrivial = true
	}
	if has17(s) {
		c.Count("numeral.17digits")
		nontrivial = true
	}
	if multi(g) {
		c.Count("members>1")
		nontrivial = true
	}
	if nontrivial {
		h := core.NewHasher()
		gen.HashGeom(h, g)
		c.Nontrivial(h.Sum())
	}
	if c.WantSample() && nontrivial {
		c.Sample(map[string]interface{}{"text": core.Trunc(s, 400)})
	}
	back, perr := refcodec.ParseWKT(s)
	if perr != nil {
		c.Violate("not-wellformed:"+name, fmt.Sprintf("independent OGC parser rejects the %s text: %v", name, perr), detail)
		return
	}
	if ok, why := gen.SameStructure(g, back); !ok {
		c.Violate("parse-differs:"+name, fmt.Sprintf("text parses to a different geometry: %s", why), detail)
		return
	}
	// shortest round-trip decimal form: no numeral carries more significant digits than needed
	flat := gen.Flatten(g)
	nums := numerals(s)
	if len(nums) == 2*len(flat) {
		for i, p := range flat {
			for k, v := range []float64{p.X, p.Y} {
				if got, want := sigDigits(nums[2*i+k]), sigDigits(strconv.FormatFloat(v, 'e', -1, 64)); got > want {
					c.Violate("not-shortest-form", fmt.Sprintf("numeral %q has %d significant digits, the shortest form that parses to the same float64 needs %d", nums[2*i+k], got, want), detail)
					return
				}
			}
		}
	}
}

func multi(g geom.Geom) bool {
	switch t := g.(type) {
	case geom.MultiLineString:
		return len(t) > 1
	case geom.Polygon:
		return len(t) > 1
	case geom.MultiPolygon:
		if len(t) > 1 {
			return true
		}
		for _, p := range t {
			if len(p) > 1 {
				return true
			}
		}
	}
	return false
}

// has17 reports whether the text contains a numeral with >= 17 significant digits.
func has17(s string) bool {
	n := 0
	for i := 0; i < len(s); i++ {
		ch := s[i]
		switch {
		case ch >= '0' && ch <= '9':
			if n > 0 || ch != '0' {
				n++
			}
			if n >= 17 {
				return true
			}
		case ch == '.':
		default:
			n = 0
		}
	}
	return false
}

type aliasState struct {
	prev     []byte
	prevCopy string
}

// numerals extracts the numeric literals of a WKT text in order.
func numerals(s string) []string {
	var out []string
	i := 0
	for i < len(s) {
		ch := s[i]
		if (ch >= '0' && ch <= '9') || ch == '-' || ch == '+' || ch == '.' {
			j := i
			for j < len(s) && ((s[j] >= '0' && s[j] <= '9') || s[j] == '-' || s[j] == '+' || s[j] == '.' || s[j] == 'e' || s[j] == 'E') {
				j++
			}
			out = append(out, s[i:j])
			i = j
			continue
		}
		i++
	}
	return out
}

// sigDigits counts the significant digits of a decimal literal (mantissa only,
// leading and trailing zeros not counted).
func sigDigits(lit string) int {
	if k := strings.IndexAny(lit, "eE"); k >= 0 {
		lit = lit[:k]
	}
	var d []byte
	for i := 0; i < len(lit); i++ {
		if lit[i] >= '0' && lit[i] <= '9' {
			d = append(d, lit[i])
		}
	}
	ds := strings.TrimLeft(string(d), "0")
	ds = strings.TrimRight(ds, "0")
	if ds == "" {
		return 1
	}
	return len(ds)
}
