// Package c02 monitors property C02: Within classifies points against
// polygons exactly (inside / outside / on edge).
package c02

import (
	"fmt"
	"math"

	"github.com/ctessum/geom"

	"verifharness/internal/core"
	"verifharness/internal/exact"
	"verifharness/internal/gen"
)

func init() {
	core.Register(&core.Prop{
		ID: "C02",
		Rule: "grid phase: case = one polygonal geometry (1-2 polygons x 1-3 rings of 0-7 unfiltered vertices on the half-integer grid {0,.5,..,4}^2: self-intersecting, collinear, repeated-vertex, clockwise, unclosed and closed rings all occur; also *Bounds; 30% of the polygonals are handed over with their rings laid out as consecutive sub-slices of one backing array while the oracle reads a separately allocated copy) and all 81 grid points judged by an exact integer/rational crossing-number + on-segment oracle, plus MultiPoint/LineString/MultiLineString/Polygon receivers (random vertices, and each member polygon of the polygonal itself, same or copied storage); " +
			"float phase: star and random-walk float polygons with margin points judged by the same rule in exact rational arithmetic; enumerate phase (thorough): every ordered triangle and quadrilateral on the 4x4 integer grid, closed and unclosed, against all 49 half-grid points; " +
			"far_vertex phase: rings of 2-5 ordinary half-integer vertices and 1-2 vertices 2^54..1e300 away, queried at ordinary half-integer points, the ordinary vertices and points exactly on axis-parallel far edges (points within 1e-6 of, but not on, an edge with a far end are not judged); an evaluation is one (point, geometry) classification; non-trivial = geometry for which at least one OnEdge and one Inside answer were produced; distinct by content hash",
		Assumptions: []string{"a ring counts when it stores >= 3 vertices (closing vertex included), as the implementation documents", "float phase judges only points with margin >= 1e-9*diameter from every edge"},
		Phases: []core.Phase{
			{Name: "grid", NumCases: func(t string) int {
				if t == "thorough" {
					return 1000000
				}
				return 30000
			}},
			{Name: "lattice", NumCases: func(t string) int {
				if t == "thorough" {
					return 400000
				}
				return 12000
			}},
			{Name: "float", NumCases: func(t string) int {
				if t == "thorough" {
					return 200000
				}
				return 6000
			}},
			{Name: "far_vertex", NumCases: func(t string) int {
				if t == "thorough" {
					return 200000
				}
				return 8000
			}},
			{Name: "enumerate", NumCases: func(t string) int {
				if t == "thorough" {
					return 16*16*16 + 16*16*16*16
				}
				return 0
			}},
		},
		Run: run,
		Floors: func(t string) map[string]int64 {
			return map[string]int64{"history.polygon_edited_in_place_between_queries": 1000, "pt.on_vertex": 1000, "pt.on_closing_segment_of_unclosed_ring": 200, "pt.on_horizontal_edge": 500, "pt.ray_through_vertex": 1000,
				"pt.inside_two_members": 100, "answer.inside": 1000, "answer.outside": 1000, "answer.onedge": 1000, "recv.outside": 200, "recv.not_outside": 200, "recv.self.outside": 100, "storage.rings_share_one_backing_array": 1000, "recv.self.not_outside": 100, "float.judged": 1000, "float.ray_grazes_one_ulp_edge": 1000, "float.extreme_scale": 300, "lattice.points_in_the_interior_of_an_edge": 20000, "lattice.figures_with_lattice_points_on_edges": 3000, "float.scaled_to_the_top_of_the_range": 150, "float.figure_around_the_origin": 300, "arg.*Bounds": 100, "far_vertex.rings": 4000, "far_vertex.points_judged": 100000}
		},
		Exhaustive: func(t string) bool { return false },
	})
}

func statusName(s exact.Status) string { return [...]string{"Outside", "Inside", "OnEdge"}[s] }

func conv(w geom.WithinStatus) exact.Status {
	switch w {
	case geom.Inside:
		return exact.Inside
	case geom.OnEdge:
		return exact.OnEdge
	}
	return exact.Outside
}

// oracle classifies p against polygonal rings (stored spelling).
func oracle(p geom.Point, polys []geom.Polygon) exact.Status {
	var rings [][]exact.P
	for _, pg := range polys {
		for _, r := range pg {
			rings = append(rings, gen.EPath(r))
		}
	}
	return exact.PointInRings(gen.EP(p), rings, 3)
}

// The grid is centred on the origin ({-2,-1.5,..,2}^2) so that zero ordinates occur in the
// middle of figures; a zero is spelled -0 half of the time (it is the same number).
func gridOrd(r *gen.R) float64 {
	v := float64(r.Intn(9))/2 - 2
	if v == 0 && r.Bool() {
		return math.Copysign(0, -1)
	}
	return v
}

func gridPt(r *gen.R) geom.Point {
	return geom.Point{X: gridOrd(r), Y: gridOrd(r)}
}

// withNegZero appends, for every point with a zero ordinate, its spellings with -0.
func withNegZero(pts []geom.Point) []geom.Point {
	nz := math.Copysign(0, -1)
	o := append([]geom.Point{}, pts...)
	for _, p := range pts {
		if p.X == 0 {
			o = append(o, geom.Point{X: nz, Y: p.Y})
		}
		if p.Y == 0 {
			o = append(o, geom.Point{X: p.X, Y: nz})
		}
		if p.X == 0 && p.Y == 0 {
			o = append(o, geom.Point{X: nz, Y: nz})
		}
	}
	return o
}

var globalCounts struct{ closed3 int }

func gridRing(r *gen.R) geom.Path {
	n := r.IntRange(3, 7)
	if r.Chance(0.08) {
		n = r.Intn(3) // rings of < 3 vertices must be ignored
	}
	ring := make(geom.Path, n)
	for i := range ring {
		ring[i] = gridPt(r)
	}
	if n >= 3 && r.Chance(0.4) {
		ring = append(ring, ring[0]) // closed spelling (n+1 >= 4 stored vertices)
	}
	if n >= 2 && r.Chance(0.1) {
		ring[r.Intn(n)] = ring[r.Intn(n)] // repeated vertex
	}
	if n == 3 && len(ring) == 3 && ring[0] == ring[2] {
		// three stored vertices of which the last repeats the first: a two-vertex ring in the
		// closed spelling. It stores three vertices, so it counts as a ring (a segment walked
		// there and back: its points are OnEdge, nothing is Inside it).
		globalCounts.closed3++
	}
	return ring
}

func run(c *core.Ctx, idx int) {
	switch c.Phase {
	case "grid":
		runGrid(c)
	case "lattice":
		runLattice(c)
	case "float":
		runFloat(c)
	case "far_vertex":
		runFarVertex(c)
	case "enumerate":
		runEnum(c, idx)
	}
}

// runFarVertex is the 'far_vertex' phase: a ring of a few ordinary half-integer vertices and one or
// two vertices astronomically far away (2^54 .. 1e300: a wedge open to infinity, a half-plane written
// as a triangle), queried at ordinary half-integer points, the ordinary vertices and points exactly
// on the far edges where such points exist. A query point that is not exactly on an edge but within
// 1e-6 (and 1e-9 of the smaller end) of an edge with a far end is not judged (beyond 2^54 the direction of such an edge is known to
// float64 only to a relative 1e-16, so no evaluation in float64 can place points that close).
func runFarVertex(c *core.Ctx) {
	r := c.R
	half := func() float64 { return float64(r.IntRange(-40, 40)) / 2 }
	far := func() geom.Point {
		h := math.Ldexp(1, r.IntRange(54, 70))
		if r.Chance(0.6) {
			h = math.Pow(10, r.Range(17, 300))
		}
		sx, sy := float64(1-2*r.Intn(2)), float64(1-2*r.Intn(2))
		switch r.Intn(5) {
		case 0:
			return geom.Point{X: half(), Y: sy * h}
		case 1:
			return geom.Point{X: sx * h, Y: half()}
		case 2:
			return geom.Point{X: sx * h, Y: sy * h}
		case 3:
			return geom.Point{X: sx * h, Y: sy * h * 2}
		}
		return geom.Point{X: sx * h * r.Range(0.1, 1), Y: sy * h * r.Range(0.1, 1)}
	}
	n := r.IntRange(2, 5)
	var ring geom.Path
	for i := 0; i < n; i++ {
		ring = append(ring, geom.Point{X: half(), Y: half()})
	}
	nf := 1
	if r.Chance(0.3) {
		nf = 2
	}
	isFar := map[geom.Point]bool{}
	for i := 0; i < nf; i++ {
		f := far()
		isFar[f] = true
		k := r.Intn(len(ring) + 1)
		ring = append(ring[:k], append(geom.Path{f}, ring[k:]...)...)
	}
	open := append(geom.Path{}, ring...)
	if r.Bool() {
		ring = append(ring, ring[0])
	}
	polys := []geom.Polygon{{ring}}
	var pgl geom.Polygonal = polys[0]
	if r.Chance(0.3) {
		pgl = geom.MultiPolygon{polys[0]}
	}
	// query points
	var pts []geom.Point
	for i := 0; i < 30; i++ {
		pts = append(pts, geom.Point{X: float64(r.IntRange(-50, 50)) / 2, Y: float64(r.IntRange(-50, 50)) / 2})
	}
	for i, v := range open {
		if isFar[v] {
			continue
		}
		pts = append(pts, v)
		// points exactly on an axis-parallel or diagonal far edge leaving this vertex
		for _, w := range []geom.Point{open[(i+1)%len(open)], open[(i+len(open)-1)%len(open)]} {
			if !isFar[w] {
				continue
			}
			k := float64(r.IntRange(1, 20)) / 2
			switch {
			case w.X == v.X:
				pts = append(pts, geom.Point{X: v.X, Y: v.Y + math.Copysign(k, w.Y)})
			case w.Y == v.Y:
				pts = append(pts, geom.Point{X: v.X + math.Copysign(k, w.X), Y: v.Y})
			}
		}
	}
	detail := map[string]interface{}{"polygonal": gen.Dump(pgl.(geom.Geom))}
	var judged []geom.Point
	for _, p := range pts {
		skip := false
		for i := range open {
			a, b := open[i], open[(i+1)%len(open)]
			if !isFar[a] && !isFar[b] {
				continue
			}
			// clear margin: 1e-6, and 1e-9 of the smaller end of the edge (an edge with BOTH ends far
			// away is placed by its float64 coordinates only to within 1e-16 of their size)
			inf := func(q geom.Point) float64 { return math.Max(math.Abs(q.X), math.Abs(q.Y)) }
			if d := exact.DistPointSeg(gen.EP(p), gen.EP(a), gen.EP(b)); d > 0 && d < math.Max(1e-6, 1e-9*math.Min(inf(a), inf(b))) {
				skip = true
			}
		}
		if skip {
			c.Count("far_vertex.point_within_1e-6_of_a_far_edge_skipped")
			continue
		}
		judged = append(judged, p)
	}
	c.Count("far_vertex.rings")
	c.Add("far_vertex.points_judged", int64(len(judged)))
	nIn, nEdge := judgeAll(c, pgl, polys, judged, detail, "far_vertex")
	if nIn > 0 && nEdge > 0 {
		h := core.NewHasher()
		gen.HashGeom(h, polys[0])
		c.Nontrivial(h.Sum())
	}
}

// runLattice is the 'lattice' phase: few-vertex rings on a wide half-integer (or integer) lattice,
// |ordinate| up to 8 .. 512 units, so that edges have long lattice vectors (dx, dy); the query points
// are the lattice points in the interior of the edges (all of them up to 40 per edge), the points
// next to those, the vertices and random lattice points. The arithmetic is still exact.
func runLattice(c *core.Ctx) {
	r := c.R
	unit := []float64{0.5, 1, 1, 0.25}[r.Intn(4)]
	R := []int{8, 16, 16, 32, 32, 64, 128, 512}[r.Intn(8)]
	pt := func() geom.Point {
		return geom.Point{X: float64(r.IntRange(-R, R)) * unit, Y: float64(r.IntRange(-R, R)) * unit}
	}
	ring := func() geom.Path {
		n := r.IntRange(3, 6)
		o := make(geom.Path, n)
		for i := range o {
			o[i] = pt()
		}
		if r.Chance(0.4) {
			o = append(o, o[0])
		}
		return o
	}
	var polys []geom.Polygon
	for m := r.IntRange(1, 2); m > 0; m-- {
		pg := geom.Polygon{}
		for k := r.IntRange(1, 2); k > 0; k-- {
			pg = append(pg, ring())
		}
		polys = append(polys, pg)
	}
	var pgl geom.Polygonal = geom.MultiPolygon(polys)
	tag := "lattice"
	if len(polys) == 1 && r.Bool() {
		pgl = polys[0]
	}
	if r.Chance(0.3) {
		pgl = gen.InArena(pgl.(geom.Geom)).G.(geom.Polygonal)
		tag += "-shared-storage"
	}
	gcd := func(a, b int64) int64 {
		if a < 0 {
			a = -a
		}
		if b < 0 {
			b = -b
		}
		for b != 0 {
			a, b = b, a%b
		}
		return a
	}
	var pts []geom.Point
	onEdge := 0
	for _, pg := range polys {
		for _, rg := range pg {
			n := len(rg)
			for i := 0; i < n; i++ {
				a, b := rg[i], rg[(i+1)%n]
				pts = append(pts, a)
				dx, dy := int64(math.Round((b.X-a.X)/unit)), int64(math.Round((b.Y-a.Y)/unit))
				g := gcd(dx, dy)
				if g <= 1 {
					continue
				}
				step := int64(1)
				if g > 40 {
					step = g / 40
				}
				for k := int64(1); k < g; k += step {
					q := geom.Point{X: a.X + float64(dx/g*k)*unit, Y: a.Y + float64(dy/g*k)*unit}
					pts = append(pts, q, geom.Point{X: q.X + unit, Y: q.Y}, geom.Point{X: q.X, Y: q.Y - unit})
					onEdge++
				}
			}
		}
	}
	for k := 0; k < 20; k++ {
		pts = append(pts, pt())
	}
	c.Add("lattice.points_in_the_interior_of_an_edge", int64(onEdge))
	if onEdge > 0 {
		c.Count("lattice.figures_with_lattice_points_on_edges")
	}
	c.Count(fmt.Sprintf("lattice.half_width_%d", R))
	detail := map[string]interface{}{"polygonal": gen.Dump(pgl), "lattice_unit": unit}
	nIn, nEdge := judgeAll(c, pgl, polys, pts, detail, tag)
	if nIn > 0 && nEdge > 0 {
		h := core.NewHasher()
		gen.HashGeom(h, pgl)
		c.Nontrivial(h.Sum())
	}
}

func judgeAll(c *core.Ctx, pg geom.Polygonal, polys []geom.Polygon, pts []geom.Point, detail map[string]interface{}, tag string) (nIn, nEdge int) {
	for _, p := range pts {
		c.Eval()
		want := oracle(p, polys)
		var got geom.WithinStatus
		if c.Guard("Point.Within", detail, func() { got = p.Within(pg) }) {
			return
		}
		switch want {
		case exact.Inside:
			nIn++
			c.Count("answer.inside")
		case exact.OnEdge:
			nEdge++
			c.Count("answer.onedge")
		default:
			c.Count("answer.outside")
		}
		if conv(got) != want {
			d := map[string]interface{}{"point": []float64{p.X, p.Y}, "want": statusName(want), "got": statusName(conv(got))}
			for k, v := range detail {
				d[k] = v
			}
			c.Violate(fmt.Sprintf("within:%s:want-%s-got-%s", tag, statusName(want), statusName(conv(got))),
				fmt.Sprintf("Point%v.Within = %s, exact oracle says %s", p, statusName(conv(got)), statusName(want)), d)
		}
	}
	return
}

var allGrid = func() []geom.Point {
	var o []geom.Point
	for i := 0; i <= 8; i++ {
		for j := 0; j <= 8; j++ {
			o = append(o, geom.Point{X: float64(i)/2 - 2, Y: float64(j)/2 - 2})
		}
	}
	return withNegZero(o)
}()

func coverage(c *core.Ctx, polys []geom.Polygon) {
	// categories, computed for every grid point
	for _, p := range allGrid {
		members := 0
		for _, pg := range polys {
			if oracle(p, []geom.Polygon{pg}) == exact.Inside {
				members++
			}
			for _, r := range pg {
				n := len(r)
				if n < 3 {
					continue
				}
				for i := 0; i < n; i++ {
					a, b := r[i], r[(i+1)%n]
					if p == a {
						c.Count("pt.on_vertex")
					} else if p.Y == a.Y && p.X < a.X {
						c.Count("pt.ray_through_vertex")
					}
					if a.Y == b.Y && a.X != b.X && p.Y == a.Y {
						if exact.OnSegment(gen.EP(p), gen.EP(a), gen.EP(b)) {
							c.Count("pt.on_horizontal_edge")
						} else if p.X < math.Min(a.X, b.X) {
							c.Count("pt.ray_along_horizontal_edge")
						}
					}
					if i == n-1 && a != b && exact.OnSegment(gen.EP(p), gen.EP(a), gen.EP(b)) && p != a && p != b {
						c.Count("pt.on_closing_segment_of_unclosed_ring")
					}
				}
			}
		}
		if members >= 2 {
			c.Count("pt.inside_two_members")
		}
	}
}

func runGrid(c *core.Ctx) {
	r := c.R
	var pgl geom.Polygonal
	var polys []geom.Polygon
	tag := "grid"
	switch r.Intn(10) {
	case 0:
		a, b := gridPt(r), gridPt(r)
		bd := &geom.Bounds{Min: geom.Point{X: math.Min(a.X, b.X), Y: math.Min(a.Y, b.Y)}, Max: geom.Point{X: math.Max(a.X, b.X), Y: math.Max(a.Y, b.Y)}}
		pgl = bd
		polys = bd.Polygons()
		c.Count("arg.*Bounds")
		tag = "grid-bounds"
	case 1, 2, 3, 4, 5:
		pg := geom.Polygon{}
		for k := r.IntRange(1, 3); k > 0; k-- {
			pg = append(pg, gridRing(r))
		}
		pgl = pg
		polys = []geom.Polygon{pg}
		c.Count("arg.Polygon")
	default:
		mp := geom.MultiPolygon{}
		for m := r.IntRange(1, 2); m > 0; m-- {
			pg := geom.Polygon{}
			for k := r.IntRange(1, 2); k > 0; k-- {
				pg = append(pg, gridRing(r))
			}
			mp = append(mp, pg)
		}
		pgl = mp
		polys = mp
		c.Count("arg.MultiPolygon")
	}
	detail := map[string]interface{}{"polygonal": gen.Dump(pgl)}
	if _, isBox := pgl.(*geom.Bounds); !isBox && r.Chance(0.3) {
		// the library gets a copy whose rings are consecutive slices of one backing array
		// (rings cut out of a flat coordinate buffer); the oracle keeps the separately allocated
		// original, so anything written through a ring's spare capacity shows as a wrong answer
		pgl = gen.InArena(pgl.(geom.Geom)).G.(geom.Polygonal)
		detail["storage"] = "rings are consecutive sub-slices of one backing array (ring k = buf[off:off+n])"
		c.Count("storage.rings_share_one_backing_array")
		tag += "-shared-storage"
	}
	coverage(c, polys)
	nIn, nEdge := judgeAll(c, pgl, polys, allGrid, detail, tag)
	if nIn > 0 && nEdge > 0 {
		h := core.NewHasher()
		gen.HashGeom(h, pgl)
		c.Nontrivial(h.Sum())
		if c.WantSample() {
			c.Sample(map[string]interface{}{"polygonal": gen.Dump(pgl), "grid_points_inside": nIn, "grid_points_on_edge": nEdge})
		}
	}
	receivers(c, pgl, polys, detail)
	// the same value, edited in place after it has answered queries (a vertex moved to another grid
	// point, often outside the ring's previous box), is asked again: nothing the library may have
	// kept from the earlier calls is allowed to show (a polygon is a plain value)
	if _, isBox := pgl.(*geom.Bounds); !isBox && detail["storage"] == nil && r.Chance(0.35) {
		pg := polys[r.Intn(len(polys))]
		ring := pg[r.Intn(len(pg))]
		if len(ring) > 0 {
			i := r.Intn(len(ring))
			old := ring[i]
			ring[i] = gridPt(r)
			if r.Bool() {
				// to a corner region of the grid: beyond the ring's previous box more often than not
				ring[i] = geom.Point{X: float64(r.IntRange(0, 1)*4 - 2), Y: float64(r.IntRange(0, 1)*4 - 2)}
			}
			c.Count("history.polygon_edited_in_place_between_queries")
			d2 := map[string]interface{}{"polygonal": gen.Dump(pgl), "history": fmt.Sprintf("the same value answered %d queries before a vertex of one ring was moved in place from %v to %v", len(allGrid), old, ring[i])}
			judgeAll(c, pgl, polys, allGrid, d2, tag+"-edited-in-place")
		}
	}
}

// receivers checks MultiPoint / LineString / MultiLineString / Polygon.Within:
// Outside exactly when at least one vertex is Outside.
func receivers(c *core.Ctx, pgl geom.Polygonal, polys []geom.Polygon, detail map[string]interface{}) {
	r := c.R
	// the polygonal's own polygons as receivers (identical geometry, same or copied storage):
	// rings of fewer than three vertices are not boundaries, so their vertices may be Outside
	for _, pg := range polys {
		anyOut, nv := false, 0
		for _, ring := range pg {
			for _, p := range ring {
				nv++
				if oracle(p, polys) == exact.Outside {
					anyOut = true
				}
			}
		}
		if nv == 0 {
			continue
		}
		var recv geom.Polygon = pg
		if r.Bool() {
			recv = gen.DeepCopy(pg).(geom.Polygon)
		}
		c.Eval()
		var got geom.WithinStatus
		d := map[string]interface{}{"receiver": gen.Dump(recv)}
		for kk, v := range detail {
			d[kk] = v
		}
		if c.Guard("Polygon.Within", d, func() { got = recv.Within(pgl) }) {
			continue
		}
		if anyOut {
			c.Count("recv.self.outside")
		} else {
			c.Count("recv.self.not_outside")
		}
		if (got == geom.Outside) != anyOut {
			c.Violate("receiver:Polygon:self", fmt.Sprintf("Polygon.Within(a polygonal containing that very polygon) = %s but 'some vertex is Outside' is %v", statusName(conv(got)), anyOut), d)
		}
	}
	for k := 0; k < 4; k++ {
		n := r.IntRange(1, 5)
		pts := make([]geom.Point, n)
		anyOut := false
		for i := range pts {
			pts[i] = gridPt(r)
			// bias towards points that are not outside so that both answers occur
			for tries := 0; tries < 6 && oracle(pts[i], polys) == exact.Outside && r.Chance(0.8); tries++ {
				pts[i] = gridPt(r)
			}
			if oracle(pts[i], polys) == exact.Outside {
				anyOut = true
			}
		}
		var recv geom.Withiner
		var name string
		switch k {
		case 0:
			recv, name = geom.MultiPoint(pts), "MultiPoint"
		case 1:
			recv, name = geom.LineString(pts), "LineString"
		case 2:
			cut := r.Intn(n + 1)
			recv, name = geom.MultiLineString{pts[:cut], pts[cut:]}, "MultiLineString"
		case 3:
			cut := r.Intn(n + 1)
			recv, name = geom.Polygon{pts[:cut], pts[cut:]}, "Polygon"
		}
		c.Eval()
		var got geom.WithinStatus
		d := map[string]interface{}{"receiver": gen.Dump(recv.(geom.Geom))}
		for kk, v := range detail {
			d[kk] = v
		}
		if c.Guard(name+".Within", d, func() { got = recv.Within(pgl) }) {
			continue
		}
		if anyOut {
			c.Count("recv.outside")
		} else {
			c.Count("recv.not_outside")
		}
		if (got == geom.Outside) != anyOut {
			c.Violate("receiver:"+name, fmt.Sprintf("%s.Within = %s but 'some vertex is Outside' is %v", name, statusName(conv(got)), anyOut), d)
		}
	}
}

func runFloat(c *core.Ctx) {
	r := c.R
	var polys []geom.Polygon
	scale := math.Pow(10, r.Range(-3, 6))
	ox, oy := r.Range(-1, 1)*scale*10, r.Range(-1, 1)*scale*10
	centred := r.Chance(0.15)
	if centred {
		ox, oy = 0, 0 // a figure around the origin: coordinates of both signs
		c.Count("float.figure_around_the_origin")
	}
	nm := r.IntRange(1, 2)
	for m := 0; m < nm; m++ {
		var pg geom.Polygon
		if centred && r.Chance(0.7) {
			// few vertices, long edges from one side of the origin to the other
			n := r.IntRange(3, 5)
			ring := make(geom.Path, n)
			for i := range ring {
				ring[i] = geom.Point{X: r.Range(-2, 2) * scale, Y: r.Range(-2, 2) * scale}
			}
			pg = geom.Polygon{ring}
		} else if r.Bool() {
			sh := gen.StarPolygon(r, ox+r.Range(-1, 1)*scale, oy+r.Range(-1, 1)*scale, scale*r.Range(0.5, 2), r.IntRange(3, 40), r.Intn(3), 0)
			pg = sh.Poly
		} else {
			// self-crossing random walk
			n := r.IntRange(3, 25)
			ring := make(geom.Path, n)
			for i := range ring {
				ring[i] = geom.Point{X: ox + r.Range(-2, 2)*scale, Y: oy + r.Range(-2, 2)*scale}
			}
			if r.Bool() {
				ring = append(ring, ring[0])
			}
			pg = geom.Polygon{ring}
		}
		polys = append(polys, pg)
	}
	// near-horizontal edges: make a vertex's ordinate differ from its
	// neighbour's by exactly one ulp (the ray of a point at that ordinate then
	// grazes both ends of an edge)
	var ulpYs []float64
	if r.Chance(0.5) {
		for _, pg := range polys {
			for _, ring := range pg {
				n := len(ring)
				closed := n > 1 && ring[0] == ring[n-1]
				if closed {
					n--
				}
				if n < 3 || !r.Chance(0.7) {
					continue
				}
				i := r.Intn(n)
				j := (i + 1) % n
				dir := math.Inf(1)
				if r.Bool() {
					dir = math.Inf(-1)
				}
				ring[j].Y = math.Nextafter(ring[i].Y, dir)
				if closed {
					ring[len(ring)-1] = ring[0]
				}
				ulpYs = append(ulpYs, ring[i].Y, ring[j].Y)
				c.Count("float.one_ulp_edge")
			}
		}
	}
	var pgl geom.Polygonal
	if nm == 1 {
		pgl = polys[0]
	} else {
		pgl = geom.MultiPolygon(polys)
	}
	rings := gen.ERings(polys)
	diam := 4 * scale
	var pts []geom.Point
	for k := 0; k < 60; k++ {
		p := geom.Point{X: ox + r.Range(-2.5, 2.5)*scale, Y: oy + r.Range(-2.5, 2.5)*scale}
		if r.Chance(0.3) {
			// same ordinate as a vertex: the ray passes exactly through it
			v := polys[r.Intn(len(polys))]
			ring := v[r.Intn(len(v))]
			p.Y = ring[r.Intn(len(ring))].Y
			c.Count("float.ray_through_vertex")
		}
		if len(ulpYs) > 0 && r.Chance(0.4) {
			p.Y = ulpYs[r.Intn(len(ulpYs))]
			c.Count("float.ray_grazes_one_ulp_edge")
		}
		if exact.DistToRings(gen.EP(p), rings) < 1e-9*diam {
			c.Count("float.rejected_too_close")
			continue
		}
		pts = append(pts, p)
		c.Count("float.judged")
	}
	// extreme magnitudes: the same figure multiplied by an exact power of two (lossless, so the
	// classification computed on the unscaled figure is the truth for the scaled one)
	if r.Chance(0.2) || centred && r.Chance(0.6) {
		k := []int{-600, -560, -530, -400, 400, 480, 515, 600, 9999, 9999}[r.Intn(10)]
		if centred && r.Chance(0.7) {
			k = 9999
		}
		if k == 9999 {
			// the top of the range: the largest coordinate lands in [8e307, 1.6e308], so that the
			// difference of two coordinates of opposite sign is beyond the float64 range
			m := 0.0
			for _, pg := range polys {
				for _, ring := range pg {
					for _, p := range ring {
						m = math.Max(m, math.Max(math.Abs(p.X), math.Abs(p.Y)))
					}
				}
			}
			for _, p := range pts {
				m = math.Max(m, math.Max(math.Abs(p.X), math.Abs(p.Y)))
			}
			_, e := math.Frexp(m)
			k = 1024 - e
			c.Count("float.scaled_to_the_top_of_the_range")
		}
		f, f2 := math.Ldexp(1, k), 1.0
		if k > 1000 {
			f, f2 = math.Ldexp(1, k-2), 4 // 2^k itself may not be representable
		}
		okScale := true
		sc := func(p geom.Point) geom.Point {
			q := geom.Point{X: p.X * f * f2, Y: p.Y * f * f2}
			if math.IsInf(q.X, 0) || math.IsInf(q.Y, 0) || (p.X != 0 && math.Abs(q.X) < 1e-300) || (p.Y != 0 && math.Abs(q.Y) < 1e-300) {
				okScale = false
			}
			return q
		}
		spolys := make([]geom.Polygon, len(polys))
		for i, pg := range polys {
			spolys[i] = make(geom.Polygon, len(pg))
			for j, ring := range pg {
				spolys[i][j] = make(geom.Path, len(ring))
				for m, p := range ring {
					spolys[i][j][m] = sc(p)
				}
			}
		}
		spts := make([]geom.Point, len(pts))
		for i, p := range pts {
			spts[i] = sc(p)
		}
		if okScale {
			c.Count("float.extreme_scale")
			var spgl geom.Polygonal = spolys[0]
			if len(spolys) > 1 {
				spgl = geom.MultiPolygon(spolys)
			}
			d2 := map[string]interface{}{"polygonal": gen.Dump(spgl), "scaled_by_2^": k}
			for i, p := range spts {
				c.Eval()
				want := oracle(pts[i], polys) // truth from the unscaled figure
				var got geom.WithinStatus
				if c.Guard("Point.Within", d2, func() { got = p.Within(spgl) }) {
					break
				}
				if conv(got) != want {
					d3 := map[string]interface{}{"point": []float64{p.X, p.Y}, "want": statusName(want), "got": statusName(conv(got))}
					for kk, v := range d2 {
						d3[kk] = v
					}
					c.Violate(fmt.Sprintf("within:float-extreme-scale:want-%s-got-%s", statusName(want), statusName(conv(got))), fmt.Sprintf("figure scaled by 2^%d: Point.Within = %s, exact oracle says %s", k, statusName(conv(got)), statusName(want)), d3)
					break
				}
			}
		}
	}
	detail := map[string]interface{}{"polygonal": gen.Dump(pgl)}
	nIn, _ := judgeAll(c, pgl, polys, pts, detail, "float")
	if nIn > 0 && nIn < len(pts) {
		h := core.NewHasher()
		gen.HashGeom(h, pgl)
		c.Nontrivial(h.Sum())
	}
}

var halfGrid = func() []geom.Point {
	var o []geom.Point
	for i := 0; i <= 6; i++ {
		for j := 0; j <= 6; j++ {
			o = append(o, geom.Point{X: float64(i)/2 - 1, Y: float64(j)/2 - 1})
		}
	}
	return withNegZero(o)
}()

func runEnum(c *core.Ctx, idx int) {
	var ring geom.Path
	at := func(k int) geom.Point { return geom.Point{X: float64(k%4) - 1, Y: float64(k/4) - 1} }
	if idx < 4096 {
		ring = geom.Path{at(idx % 16), at(idx / 16 % 16), at(idx / 256 % 16)}
	} else {
		k := idx - 4096
		ring = geom.Path{at(k % 16), at(k / 16 % 16), at(k / 256 % 16), at(k / 4096 % 16)}
	}
	c.Count("enumerated.rings")
	for _, closed := range []bool{false, true} {
		rr := ring
		if closed {
			rr = append(append(geom.Path{}, ring...), ring[0])
		}
		pg := geom.Polygon{rr}
		detail := map[string]interface{}{"polygonal": gen.Dump(pg)}
		nIn, nEdge := judgeAll(c, pg, []geom.Polygon{pg}, halfGrid, detail, "enum")
		if nIn > 0 && nEdge > 0 {
			h := core.NewHasher()
			gen.HashGeom(h, pg)
			c.Nontrivial(h.Sum())
		}
	}
}
