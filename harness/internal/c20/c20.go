// Package c20 monitors property C20: a CRS means the same whether written as
// PROJ.4, as OGC WKT or by registered name.
package c20

import (
	"fmt"
	"math"
	"os"
	"path/filepath"
	"regexp"
	"strconv"
	"strings"

	"github.com/ctessum/geom"
	"github.com/ctessum/geom/encoding/shp"
	"github.com/ctessum/geom/proj"

	"verifharness/internal/core"
	"verifharness/internal/crsgen"
)

func init() {
	core.Register(&core.Prop{
		ID: "C20",
		Rule: "spelling phase (each system is also paired with a near twin - one numeric parameter negated or nudged by 1e-6 - for which Equal and NewTransform==nil must agree and a nil transformer is accepted only if both definitions project a position to the same coordinates): case = one generated system (Mercator_1SP, Lambert_Conformal_Conic_2SP, Albers_Conic_Equal_Area, Equidistant_Conic, Transverse_Mercator or plain geographic; random parameters; spheroid by (a, 1/f); TOWGS84 with 3/7 terms or none; linear unit metre / foot / US survey foot) printed by the harness as a PROJ.4 string and as WKT (ESRI parameter names, and for the conics also the OGC/GDAL names latitude_of_center / longitude_of_center), transformed at 4 usable positions from a fresh WGS84 source (definitions with TOWGS84; half of those without) or from the same-spheroid geographic system spelled both ways (the other half of the definitions without): forward results must agree within 1e-6 m, inverse within 1e-11 deg; " +
			"registry phase: registered names vs their published definition strings (Equal, identical outputs), same text parsed twice (also after one of the two references has been used in transformations), and NewTransform == nil exactly when Equal(…, 3) for pairs that are identical or differ by 1 ulp / 1e-9 / name / units / datum-parameter count; a .prj written next to a generated shapefile must come back from (*shp.Decoder).SR() equal to proj.Parse of the text; " +
			"an evaluation is one position or one pair judged; non-trivial = definition with a non-metre unit, a TOWGS84 clause or the OGC spelling; distinct by definition hash",
		Assumptions: []string{"a WKT DATUM (with a name that is not a built-in datum) without TOWGS84 and +a +rf without +datum both state no datum shift: such definitions are compared from the geographic system on the same spheroid, itself spelled both ways, and from WGS84", "false origin: PROJ.4 metres = WKT value x linear unit"},
		Phases: []core.Phase{
			{Name: "spelling", NumCases: func(t string) int {
				if t == "thorough" {
					return 600000
				}
				return 20000
			}},
			{Name: "registry", NumCases: func(t string) int {
				if t == "thorough" {
					return 100000
				}
				return 4000
			}},
		},
		Run: run,
		Floors: func(t string) map[string]int64 {
			return map[string]int64{"wkt.nested_geogcs_with_another_angular_unit": 300, "spelling.esri": 5000, "conic.one_standard_parallel": 100, "spelling.ogc": 1000, "spelling.projection_name_in_another_case": 300, "section_order.unit_before_parameters": 1000, "unit.foot": 1000, "unit.us_foot": 1000, "towgs84.3": 1000, "towgs84.7": 1000, "towgs84.none": 1000, "towgs84.none_from_wgs84": 300,
				"proj.merc": 300, "proj.lcc": 300, "proj.aea": 300, "proj.eqdc": 300, "proj.tmerc": 300, "proj.longlat": 300, "registry.names": 100, "registry.equal_pairs": 500, "registry.unequal_pairs": 300, "registry.prj_files": 50, "twin.negated": 2000, "names.short_empty_or_unusual": 1000, "wkt.authority_on_nested_objects": 1000, "unit.other_named_factor": 1000, "layout.blank_after_commas": 1000, "twin.nudged": 1000}
		},
	})
}

type sys struct {
	proj4, wkt   string
	geo4, geoWKT string // same-spheroid geographic partner
	name         string
	towgs        int
	toMeter      float64
	lon0         float64
	dlon         float64
	latMin       float64
	latMax       float64
	ogc          bool
	oneParallel  bool // lcc with lat_1 = lat_2 (the PROJ.4 text may leave +lat_2 out)
	unitFirst    bool
	pretty       bool
	spaced          bool // a blank after every comma
	otherUnit       bool // a linear unit other than metre / foot / US survey foot
	nestedAngUnit   bool // the nested GEOGCS declares grad / radian / arc-second
	nestedAuthority bool // GDAL style: AUTHORITY nodes on the nested objects (GEOGCS = EPSG:4326)
	oddNames     bool // a WKT name other than the usual ESRI-style one (short, empty, bare prefix, blanks, non-ASCII)
}

var F = crsgen.F

func genSys(r *crsgen.R) *sys {
	s := &sys{toMeter: 1}
	a := r.Range(6.30e6, 6.40e6)
	rf := r.Range(290, 305)
	// names are free text in WKT: mostly the ESRI-style ones, sometimes very short, empty, a bare
	// prefix, with blanks or non-ASCII letters (none of them names a built-in datum or ellipsoid)
	pickName := func(usual string, others ...string) string {
		if r.Chance(0.75) {
			return usual
		}
		return others[r.Intn(len(others))]
	}
	sphName := pickName("Verif_Spheroid", "s", "", "Verif spheroid 1", "Ж")
	datName := pickName("D_Verif_Custom", "Verif_Custom", "d", "X", "", "d_", "D_", "Verif datum with blanks", "Δ_custom")
	gcsName := pickName("GCS_Verif_Custom", "g", "", "Verif geographic", "GCS_")
	if datName != "D_Verif_Custom" || gcsName != "GCS_Verif_Custom" || sphName != "Verif_Spheroid" {
		s.oddNames = true
	}
	sph := fmt.Sprintf(`SPHEROID["%s",%s,%s]`, sphName, F(a), F(rf))
	ell4 := " +a=" + F(a) + " +rf=" + F(rf)
	tw, tw4 := "", ""
	switch r.Intn(3) {
	case 1:
		p := []string{F(r.Range(-500, 500)), F(r.Range(-500, 500)), F(r.Range(-500, 500))}
		tw, tw4, s.towgs = ",TOWGS84["+strings.Join(p, ",")+"]", " +towgs84="+strings.Join(p, ","), 3
	case 2:
		p := []string{F(r.Range(-500, 500)), F(r.Range(-500, 500)), F(r.Range(-500, 500)), F(r.Range(-5, 5)), F(r.Range(-5, 5)), F(r.Range(-5, 5)), F(r.Range(-20, 20))}
		crsgen.SparseTowgs84(r, p)
		tw, tw4, s.towgs = ",TOWGS84["+strings.Join(p, ",")+"]", " +towgs84="+strings.Join(p, ","), 7
	}
	geog := `GEOGCS["` + gcsName + `",DATUM["` + datName + `",` + sph + tw + `],PRIMEM["Greenwich",0.0],UNIT["Degree",0.0174532925199433]]`
	if r.Chance(0.15) {
		// the way GDAL writes a user-defined grid on WGS 84: every nested object carries its EPSG
		// AUTHORITY (the geographic system is EPSG:4326), the projected system itself has none
		// unless the trailer below adds one
		geog = `GEOGCS["WGS 84",DATUM["WGS_1984",SPHEROID["WGS 84",6378137,298.257223563,AUTHORITY["EPSG","7030"]],AUTHORITY["EPSG","6326"]],PRIMEM["Greenwich",0,AUTHORITY["EPSG","8901"]],UNIT["degree",0.0174532925199433,AUTHORITY["EPSG","9122"]],AUTHORITY["EPSG","4326"]]`
		ell4, tw4, tw = " +datum=WGS84", "", ""
		s.towgs = 3 // a known datum: compared from a fresh WGS84 source
		s.nestedAuthority = true
	}
	s.geoWKT = geog
	s.geo4 = "+proj=longlat" + ell4 + tw4 + " +no_defs"
	unitWKT, unit4 := `UNIT["Meter",1.0]`, ""
	switch r.Intn(5) {
	case 4:
		// other units, named in WKT and given by their factor in PROJ.4: historical feet whose
		// factor is NOT the international or the US survey one, links, kilometres, anything
		u := []struct {
			name string
			f    float64
		}{{"Clarke's foot", 0.3047972654}, {"Gold Coast foot", 0.3047997101815088}, {"Indian foot", 0.3047995}, {"Sears_foot", 0.30479947153867626},
			{"British foot (1936)", 0.3048007491}, {"US survey feet (rounded)", 0.3048006}, {"Clarke's link", 0.201166195164}, {"kilometre", 1000}, {"Verif unit", r.Range(0.1, 5)},
			// the standard names with the other foot's factor (such .prj files exist): the declared factor decides
			{"Foot", 0.3048006096012192}, {"Foot_US", 0.3048}, {"US survey foot", 0.3048}, {"foot", 0.30480061}, {"metre", 0.3048}}[r.Intn(14)]
		unitWKT, unit4, s.toMeter = `UNIT["`+u.name+`",`+F(u.f)+`]`, " +to_meter="+F(u.f), u.f
		s.otherUnit = true
	case 0:
		unitWKT, unit4, s.toMeter = `UNIT["Foot",0.3048]`, " +units=ft", 0.3048
	case 1:
		unitWKT, unit4, s.toMeter = `UNIT["Foot_US",0.3048006096012192]`, " +units=us-ft", 1200.0/3937.0
	case 2:
		unit4 = " +units=m"
	}
	lon0 := r.Range(-170, 170)
	fe, fn := r.Range(-3e6, 3e6), r.Range(-3e6, 3e6) // in the linear unit
	if r.Chance(0.2) {
		fe, fn = 0, 0
	}
	x0, y0 := fe*s.toMeter, fn*s.toMeter
	s.lon0 = lon0
	// projcs assembles the PROJCS text; the order of the sections varies: ESRI .prj order
	// (GEOGCS, PROJECTION, PARAMETERs, UNIT), the EPSG-registry order with UNIT before the
	// PROJECTION, shuffled PARAMETERs, optional AXIS / AUTHORITY clauses at the end.
	unitFirst := r.Chance(0.35)
	shuffle := r.Chance(0.4)
	trailer := ""
	if r.Chance(0.2) {
		trailer = `,AXIS["Easting",EAST],AXIS["Northing",NORTH]`
	}
	if r.Chance(0.2) {
		trailer += `,AUTHORITY["EPSG","99999"]`
	}
	if unitFirst {
		s.unitFirst = true
	}
	projcs := func(name, projection, unit string, pairs ...string) string {
		var ps []string
		for i := 0; i+1 < len(pairs); i += 2 {
			ps = append(ps, `PARAMETER["`+pairs[i]+`",`+pairs[i+1]+`]`)
		}
		if shuffle {
			for i, j := range r.Perm(len(ps)) {
				ps[i], ps[j] = ps[j], ps[i]
			}
		}
		nested := geog
		if !s.nestedAuthority && r.Chance(0.12) {
			// the geographic system nested in the projected one declares another angular unit (grad,
			// radian, ...): the PARAMETER values of the projected system are in degrees all the same
			// (the property: "angular ones in degrees"), as in the PROJ.4 spelling
			u := [][2]string{{"grad", "0.015707963267948967"}, {"Radian", "1.0"}, {"gon", "0.015707963267948967"}, {"arc-second", "4.84813681109536E-06"}}[r.Intn(4)]
			nested = strings.Replace(geog, `UNIT["Degree",0.0174532925199433]`, `UNIT["`+u[0]+`",`+u[1]+`]`, 1)
			s.nestedAngUnit = true
		}
		parts := []string{nested}
		if unitFirst {
			parts = append(parts, unit)
		}
		if r.Chance(0.06) {
			// projection names are looked up without regard to case
			if r.Bool() {
				projection = strings.ToLower(projection)
			} else {
				projection = strings.ToUpper(projection)
			}
			projCase = true
		}
		parts = append(parts, `PROJECTION["`+projection+`"]`)
		parts = append(parts, ps...)
		if !unitFirst {
			parts = append(parts, unit)
		}
		return `PROJCS["` + name + `",` + strings.Join(parts, ",") + trailer + "]"
	}
	form := []string{"longlat", "merc", "lcc", "aea", "eqdc", "tmerc"}[r.Intn(6)]
	s.name = form
	fo4 := " +x_0=" + F(x0) + " +y_0=" + F(y0)
	switch form {
	case "longlat":
		s.proj4, s.wkt = s.geo4, geog
		s.lon0, s.dlon, s.latMin, s.latMax = 0, 179, -85, 85
		s.toMeter = 1
		return s
	case "merc":
		k := r.Range(0.5, 1.5)
		s.proj4 = "+proj=merc +lon_0=" + F(lon0) + " +k_0=" + F(k) + fo4 + ell4 + tw4 + unit4 + " +no_defs"
		s.wkt = projcs("Verif_Merc", "Mercator_1SP", unitWKT, "False_Easting", F(fe), "False_Northing", F(fn), "Central_Meridian", F(lon0), "Scale_Factor", F(k))
		s.dlon, s.latMin, s.latMax = 170, -85, 85
	case "tmerc":
		k, l0 := r.Range(0.9, 1.1), r.Range(-80, 80)
		s.proj4 = "+proj=tmerc +lat_0=" + F(l0) + " +lon_0=" + F(lon0) + " +k_0=" + F(k) + fo4 + ell4 + tw4 + unit4 + " +no_defs"
		s.wkt = projcs("Verif_TM", "Transverse_Mercator", unitWKT, "False_Easting", F(fe), "False_Northing", F(fn), "Central_Meridian", F(lon0), "Scale_Factor", F(k), "Latitude_Of_Origin", F(l0))
		s.dlon, s.latMin, s.latMax = 3.5, -84, 84
	default: // conics
		sgn := 1.0
		if r.Bool() {
			sgn = -1
		}
		l1, l2, l0 := sgn*r.Range(8, 75), sgn*r.Range(8, 75), sgn*r.Range(0, 80)
		if math.Abs(l1-l2) < 0.5 {
			l2 = l1 + sgn*2
		}
		lat2 := " +lat_2=" + F(l2)
		if form == "lcc" && r.Chance(0.2) {
			// the tangent cone: one standard parallel. The WKT gives it twice, the PROJ.4 text may
			// leave +lat_2 out (it defaults to lat_1), as every published one-parallel zone does
			l2 = l1
			lat2 = " +lat_2=" + F(l2)
			if r.Chance(0.6) {
				lat2 = ""
			}
			s.oneParallel = true
		}
		s.proj4 = "+proj=" + form + " +lat_1=" + F(l1) + lat2 + " +lat_0=" + F(l0) + " +lon_0=" + F(lon0) + fo4 + ell4 + tw4 + unit4 + " +no_defs"
		pname := map[string]string{"lcc": "Lambert_Conformal_Conic_2SP", "aea": "Albers_Conic_Equal_Area", "eqdc": "Equidistant_Conic"}[form]
		latName, lonName := "Latitude_Of_Origin", "Central_Meridian"
		if form != "lcc" && r.Chance(0.35) {
			latName, lonName = "latitude_of_center", "longitude_of_center"
			s.ogc = true
		}
		s.wkt = projcs("Verif_Conic", pname, unitWKT, "False_Easting", F(fe), "False_Northing", F(fn), lonName, F(lon0), "Standard_Parallel_1", F(l1), "Standard_Parallel_2", F(l2), latName, F(l0))
		s.dlon = 170
		if sgn > 0 {
			s.latMin, s.latMax = 5, 85
		} else {
			s.latMin, s.latMax = -85, -5
		}
	}
	if r.Chance(0.2) {
		// a blank after every comma outside the quoted names (hand-formatted WKT)
		var b strings.Builder
		inq := false
		for i := 0; i < len(s.wkt); i++ {
			ch := s.wkt[i]
			b.WriteByte(ch)
			if ch == '"' {
				inq = !inq
			}
			if ch == ',' && !inq {
				b.WriteByte(' ')
			}
		}
		s.wkt = b.String()
		s.spaced = true
	} else if r.Chance(0.25) && s.name != "longlat" {
		// the multi-line layout GDAL and many .prj writers produce: every nested section on its
		// own indented line (scalar values stay on the line of their keyword)
		s.wkt = prettyWKT(s.wkt)
		s.pretty = true
	}
	return s
}

// prettyWKT puts every section that follows a comma on a new, indented line.
func prettyWKT(w string) string {
	var b strings.Builder
	depth := 0
	for i := 0; i < len(w); i++ {
		ch := w[i]
		switch ch {
		case '[':
			depth++
			b.WriteByte(ch)
		case ']':
			depth--
			b.WriteByte(ch)
		case ',':
			b.WriteByte(ch)
			// a keyword follows (an upper-case letter, then letters/underscores up to '[')?
			j := i + 1
			for j < len(w) && (w[j] >= 'A' && w[j] <= 'Z' || w[j] == '_' || w[j] >= '0' && w[j] <= '9') {
				j++
			}
			if j > i+1 && j < len(w) && w[j] == '[' {
				b.WriteString("\n" + strings.Repeat("    ", depth))
			}
		default:
			b.WriteByte(ch)
		}
	}
	return b.String()
}

type res struct {
	x, y float64
	err  string
}

func once(src, dst string, x, y float64) (r res) {
	defer func() {
		if p := recover(); p != nil {
			r.err = fmt.Sprintf("panic: %v", p)
		}
	}()
	s, err := proj.Parse(src)
	if err != nil {
		return res{err: "parse source: " + err.Error()}
	}
	d, err := proj.Parse(dst)
	if err != nil {
		return res{err: "parse destination: " + err.Error()}
	}
	t, err := s.NewTransform(d)
	if err != nil {
		return res{err: "NewTransform: " + err.Error()}
	}
	if t == nil {
		return res{x: x, y: y}
	}
	ox, oy, err := t(x, y)
	if err != nil {
		return res{err: err.Error()}
	}
	if math.IsNaN(ox) || math.IsNaN(oy) {
		return res{err: fmt.Sprintf("NaN result (%v, %v)", ox, oy)}
	}
	return res{x: ox, y: oy}
}

func run(c *core.Ctx, idx int) {
	if c.Phase == "spelling" {
		runSpelling(c)
	} else {
		runRegistry(c, idx)
	}
}

const wgs84Geo = "+proj=longlat +datum=WGS84 +no_defs"

func runSpelling(c *core.Ctx) {
	r := c.R
	projCase = false
	s := genSys(r)
	if projCase {
		c.Count("spelling.projection_name_in_another_case")
	}
	c.Count("proj." + s.name)
	if s.oneParallel {
		c.Count("conic.one_standard_parallel")
	}
	spelling := "esri"
	if s.ogc {
		spelling = "ogc"
	}
	c.Count("spelling." + spelling)
	if s.unitFirst {
		c.Count("section_order.unit_before_parameters")
	}
	if s.pretty {
		c.Count("layout.multi_line")
	}
	if s.oddNames {
		c.Count("names.short_empty_or_unusual")
	}
	if s.nestedAuthority {
		c.Count("wkt.authority_on_nested_objects")
	}
	if s.nestedAngUnit {
		c.Count("wkt.nested_geogcs_with_another_angular_unit")
	}
	if s.otherUnit {
		c.Count("unit.other_named_factor")
	}
	if s.spaced {
		c.Count("layout.blank_after_commas")
	}
	switch s.towgs {
	case 0:
		c.Count("towgs84.none")
	case 3:
		c.Count("towgs84.3")
	default:
		c.Count("towgs84.7")
	}
	if math.Abs(s.toMeter-0.3048) < 1e-12 {
		c.Count("unit.foot")
	} else if s.toMeter != 1 {
		c.Count("unit.us_foot")
	}
	if s.toMeter != 1 || s.towgs > 0 || s.ogc {
		c.Nontrivial(core.NewHasher().Str(s.wkt).Sum())
	}
	if c.WantSample() && s.towgs > 0 && s.name != "longlat" {
		c.Sample(map[string]interface{}{"proj4": s.proj4, "wkt": s.wkt})
	}
	key := s.name + ":" + spelling
	// sources: with TOWGS84 a fresh WGS84 source; without, the same-spheroid geographic system spelled both ways
	type pairing struct{ src4, srcWKT string }
	var pr pairing
	if s.towgs > 0 {
		pr = pairing{wgs84Geo, wgs84Geo}
	} else {
		pr = pairing{s.geo4, s.geoWKT}
		if r.Bool() {
			// no datum shift stated in either spelling: that is the same statement, so the two must
			// also agree when reached from WGS84 (whatever the library does about the ellipsoids)
			pr = pairing{wgs84Geo, wgs84Geo}
			c.Count("towgs84.none_from_wgs84")
		}
	}
	twinCheck(c, s)
	for k := 0; k < 4; k++ {
		lon := s.lon0 + r.Range(-s.dlon, s.dlon)
		lat := r.Range(s.latMin, s.latMax)
		if math.Abs(lon) > 179.5 {
			continue
		}
		c.Eval()
		detail := map[string]interface{}{"proj4": s.proj4, "wkt": s.wkt, "source_for_proj4": pr.src4, "source_for_wkt": pr.srcWKT, "position": []float64{lon, lat}}
		a := once(pr.src4, s.proj4, lon, lat)
		b := once(pr.srcWKT, s.wkt, lon, lat)
		if a.err != "" {
			c.Violate("proj4-error:"+key, "the PROJ.4 spelling fails: "+core.Trunc(a.err, 150), detail)
			continue
		}
		if b.err != "" {
			c.Violate("wkt-error:"+key, "the WKT spelling fails where the PROJ.4 spelling works: "+core.Trunc(b.err, 150), detail)
			continue
		}
		detail["via_proj4"], detail["via_wkt"] = []float64{a.x, a.y}, []float64{b.x, b.y}
		var d, tol float64
		if s.name == "longlat" {
			d, tol = math.Max(math.Abs(a.x-b.x), math.Abs(a.y-b.y)), 1e-11
		} else {
			d, tol = math.Max(math.Abs(a.x-b.x), math.Abs(a.y-b.y))*s.toMeter, 1e-6
		}
		c.Max("max_forward_diff."+s.name, d)
		if d > tol {
			c.Violate("forward-differs:"+key, fmt.Sprintf("%s: PROJ.4 spelling gives (%v, %v), WKT spelling (%v, %v): %.3g apart (tolerance %.0e)", s.name, a.x, a.y, b.x, b.y, d, tol), detail)
			continue
		}
		// cross spelling too: WKT source -> PROJ.4 destination (mixed pairs must agree as well)
		if m := once(pr.srcWKT, s.proj4, lon, lat); m.err != "" || math.Max(math.Abs(m.x-a.x), math.Abs(m.y-a.y))*s.toMeter > tol {
			c.Violate("mixed-spelling:"+key, fmt.Sprintf("WKT-spelled source with PROJ.4-spelled destination gives %+v, PROJ.4/PROJ.4 gives %+v", m, a), detail)
			continue
		}
		// inverse
		if s.name != "longlat" {
			ia := once(s.proj4, pr.src4, a.x, a.y)
			ib := once(s.wkt, pr.srcWKT, a.x, a.y)
			if ia.err != "" || ib.err != "" {
				c.Violate("inverse-error:"+key, fmt.Sprintf("inverse fails: proj4 %q wkt %q", ia.err, ib.err), detail)
				continue
			}
			di := math.Max(math.Abs(ia.x-ib.x), math.Abs(ia.y-ib.y))
			c.Max("max_inverse_diff_deg", di)
			if di > 1e-11 {
				c.Violate("inverse-differs:"+key, fmt.Sprintf("inverse: PROJ.4 spelling gives (%v, %v), WKT spelling (%v, %v)", ia.x, ia.y, ib.x, ib.y), detail)
			}
		}
	}
}

// published definitions of the registered names (as documented by the package)
var published = map[string]string{
	"EPSG:4326":   "+title=WGS 84 (long/lat) +proj=longlat +ellps=WGS84 +datum=WGS84 +units=degrees",
	"WGS84":       "+title=WGS 84 (long/lat) +proj=longlat +ellps=WGS84 +datum=WGS84 +units=degrees",
	"EPSG:4269":   "+title=NAD83 (long/lat) +proj=longlat +a=6378137.0 +b=6356752.31414036 +ellps=GRS80 +datum=NAD83 +units=degrees",
	"EPSG:3857":   "+title=WGS 84 / Pseudo-Mercator +proj=merc +a=6378137 +b=6378137 +lat_ts=0.0 +lon_0=0.0 +x_0=0.0 +y_0=0 +k=1.0 +units=m +nadgrids=@null +no_defs",
	"EPSG:3785":   "+title=WGS 84 / Pseudo-Mercator +proj=merc +a=6378137 +b=6378137 +lat_ts=0.0 +lon_0=0.0 +x_0=0.0 +y_0=0 +k=1.0 +units=m +nadgrids=@null +no_defs",
	"GOOGLE":      "+title=WGS 84 / Pseudo-Mercator +proj=merc +a=6378137 +b=6378137 +lat_ts=0.0 +lon_0=0.0 +x_0=0.0 +y_0=0 +k=1.0 +units=m +nadgrids=@null +no_defs",
	"EPSG:900913": "+title=WGS 84 / Pseudo-Mercator +proj=merc +a=6378137 +b=6378137 +lat_ts=0.0 +lon_0=0.0 +x_0=0.0 +y_0=0 +k=1.0 +units=m +nadgrids=@null +no_defs",
	"EPSG:102113": "+title=WGS 84 / Pseudo-Mercator +proj=merc +a=6378137 +b=6378137 +lat_ts=0.0 +lon_0=0.0 +x_0=0.0 +y_0=0 +k=1.0 +units=m +nadgrids=@null +no_defs",
}

var regNames = []string{"WGS84", "EPSG:4326", "EPSG:4269", "EPSG:3857", "EPSG:3785", "GOOGLE", "EPSG:900913", "EPSG:102113"}

// projCase is set when the last generated WKT spelled its projection name in another case.
var projCase bool

func runRegistry(c *core.Ctx, idx int) {
	r := c.R
	switch idx % 4 {
	case 0: // registered names vs published definitions
		name := regNames[r.Intn(len(regNames))]
		c.Eval()
		c.Count("registry.names")
		other := crsgen.Gen(r, &crsgen.Options{Projs: []string{"utm", "lcc", "tmerc", "longlat"}, DatKinds: []string{"named", "towgs84_3"}, NoPM: true})
		lon, lat := other.Pos(r)
		detail := map[string]interface{}{"name": name, "definition": published[name], "other": other.String(), "position": []float64{lon, lat}}
		c.Nontrivial(core.NewHasher().Str(name).Str(other.String()).Sum())
		if c.WantSample() {
			c.Sample(detail)
		}
		c.Guard("registry", detail, func() {
			// Equal is judged on references that have not been used yet: building a
			// transformer fills in projection defaults (lon_0, x_0 …) on the reference it is
			// built from, and the registered references are shared and long-lived.
			byDef, err2 := proj.Parse(published[name])
			byName, err1 := proj.Parse(name)
			if err1 != nil || err2 != nil {
				c.Violate("registry-parse:"+name, fmt.Sprintf("Parse(%q): %v; Parse(definition): %v", name, err1, err2), detail)
				return
			}
			// identical transformer outputs, both directions
			geoPos := once(other.Geographic().String(), name, lon, lat) // position expressed in the registered system
			if geoPos.err != "" {
				return
			}
			a := once(name, other.String(), geoPos.x, geoPos.y)
			b := once(published[name], other.String(), geoPos.x, geoPos.y)
			if a.err != b.err || a.x != b.x || a.y != b.y {
				if !(math.IsNaN(a.x) && math.IsNaN(b.x)) {
					c.Violate("registry-output:"+name, fmt.Sprintf("transform from %q gives %+v, from its definition %+v", name, a, b), detail)
				}
			}
			a2 := once(other.String(), name, lon, lat)
			b2 := once(other.String(), published[name], lon, lat)
			if a2.err != b2.err || a2.x != b2.x || a2.y != b2.y {
				c.Violate("registry-output:"+name, fmt.Sprintf("transform to %q gives %+v, to its definition %+v", name, a2, b2), detail)
			}
			_ = byDef
			_ = byName
		})
	case 1: // same text parsed twice gives Equal references; NewTransform nil
		c.Eval()
		c.Count("registry.equal_pairs")
		var text string
		if r.Bool() {
			text = crsgen.Gen(r, nil).String()
		} else {
			s := genSys(r)
			text = s.wkt
			if s.ogc {
				text = s.proj4
			}
		}
		detail := map[string]interface{}{"text": text}
		c.Nontrivial(core.NewHasher().Str(text).Sum())
		c.Guard("parse-twice", detail, func() {
			a, err1 := proj.Parse(text)
			b, err2 := proj.Parse(text)
			if err1 != nil || err2 != nil {
				c.Violate("parse-twice-error", fmt.Sprintf("Parse fails: %v / %v", err1, err2), detail)
				return
			}
			if !a.Equal(b, 0) || !b.Equal(a, 3) {
				c.Violate("parse-twice-not-equal", "parsing the same text twice gives references that are not Equal", detail)
			}
			t, err := a.NewTransform(b)
			if err != nil || t != nil {
				c.Violate("equal-but-transformer", fmt.Sprintf("NewTransform between Equal references returned a non-nil transformer (err=%v)", err), detail)
			}
			// the same after one of the two has been used: a third parse of the text, then a
			// transformation from a to the registered WGS84 and back
			if w, err := proj.Parse("WGS84"); err == nil {
				if tw, err := a.NewTransform(w); err == nil && tw != nil {
					tw(1, 1)
				}
				if tw, err := w.NewTransform(a); err == nil && tw != nil {
					tw(0.1, 0.1)
				}
				c.Count("registry.equal_after_use")
				b2, err := proj.Parse(text)
				if err != nil || !a.Equal(b2, 0) || !b2.Equal(a, 3) {
					c.Violate("parse-twice-not-equal:after-use", "a reference that has been used in a transformation is no longer Equal to a fresh parse of the same text", detail)
					return
				}
				if t, err := a.NewTransform(b2); err != nil || t != nil {
					c.Violate("equal-but-transformer:after-use", fmt.Sprintf("NewTransform between a used reference and a fresh parse of the same text returned a non-nil transformer (err=%v)", err), detail)
				}
			}
		})
	case 2: // NewTransform nil exactly when Equal
		c.Eval()
		d := crsgen.Gen(r, &crsgen.Options{NoPM: true})
		variant := r.Intn(7)
		a, b := d.String(), d.String()
		label := ""
		bump := func(s, key string, f func(float64) float64) string {
			i := strings.Index(s, key)
			if i < 0 {
				return s
			}
			j := i + len(key)
			k := j
			for k < len(s) && s[k] != ' ' {
				k++
			}
			var v float64
			fmt.Sscanf(s[j:k], "%g", &v)
			return s[:j] + F(f(v)) + s[k:]
		}
		switch variant {
		case 0:
			label = "identical"
		case 1:
			label = "x_0+1ulp"
			b = bump(b, "+x_0=", func(v float64) float64 { return math.Nextafter(v, math.Inf(1)) })
		case 2:
			label = "lon_0+1e-9"
			b = bump(b, "+lon_0=", func(v float64) float64 { return v + 1e-9 })
		case 3:
			label = "title"
			b = "+title=another name " + b
		case 4:
			label = "units"
			if strings.Contains(b, "+units=") || strings.Contains(b, "+to_meter=") || d.Proj == "longlat" {
				label = "identical"
			} else {
				b = strings.Replace(b, " +no_defs", " +units=ft +no_defs", 1)
			}
		case 5:
			label = "towgs84-count"
			a = "+proj=longlat +ellps=GRS80 +towgs84=1,2,3 +no_defs"
			b = "+proj=longlat +ellps=GRS80 +towgs84=1,2,3,0.1,0.2,0.3,1 +no_defs"
			if r.Bool() {
				a, b = b, a
			}
		case 6:
			label = "k_0+1e-9"
			b = bump(b, "+k_0=", func(v float64) float64 { return v + 1e-9 })
		}
		detail := map[string]interface{}{"a": a, "b": b, "difference": label}
		c.Nontrivial(core.NewHasher().Str(a).Str(b).Sum())
		rec := core.Try(func() {
			sa, err1 := proj.Parse(a)
			sb, err2 := proj.Parse(b)
			if err1 != nil || err2 != nil {
				c.Violate("pair-parse-error", fmt.Sprintf("Parse fails: %v / %v", err1, err2), detail)
				return
			}
			eq := sa.Equal(sb, 3)
			t, err := sa.NewTransform(sb)
			if err != nil {
				c.Violate("pair-newtransform-error:"+label, fmt.Sprintf("NewTransform error: %v", err), detail)
				return
			}
			if eq {
				c.Count("registry.equal_pairs")
			} else {
				c.Count("registry.unequal_pairs")
			}
			if (t == nil) != eq {
				c.Violate("nil-iff-equal:"+label, fmt.Sprintf("Equal(…,3) = %v but NewTransform returned nil = %v", eq, t == nil), detail)
			}
			if label == "identical" && !eq {
				c.Violate("identical-not-equal", "identical definitions are not Equal", detail)
			}
			if (label == "lon_0+1e-9" || label == "units" || label == "towgs84-count" || label == "k_0+1e-9") && eq && a != b {
				c.Violate("different-but-equal:"+label, "definitions differing in "+label+" compare Equal", detail)
			}
		})
		if rec != nil {
			c.Violate("pair-panic:"+label, fmt.Sprintf("Equal/NewTransform panicked: %v", core.Trunc(fmt.Sprint(rec), 150)), detail)
		}
	case 3: // .prj next to a shapefile
		c.Eval()
		c.Count("registry.prj_files")
		s := genSys(r)
		text := s.wkt
		if s.ogc {
			text = genSys(r).wkt
		}
		base := filepath.Join(c.ScratchDir, fmt.Sprintf("prj%d", idx))
		detail := map[string]interface{}{"prj": text}
		c.Nontrivial(core.NewHasher().Str(text).Sum())
		rec := core.Try(func() {
			type rec struct {
				geom.Point
				N int
			}
			e, err := shp.NewEncoder(base+".shp", rec{})
			if err != nil {
				panic("harness: " + err.Error())
			}
			e.Encode(rec{Point: geom.Point{X: 1, Y: 2}, N: 1})
			e.Close()
			os.WriteFile(base+".prj", []byte(text), 0o644)
			d, err := shp.NewDecoder(base + ".shp")
			if err != nil {
				panic("harness: " + err.Error())
			}
			defer d.Close()
			got, err := d.SR()
			want, err2 := proj.Parse(text)
			if err != nil || err2 != nil {
				c.Violate("prj-error", fmt.Sprintf("Decoder.SR(): %v; Parse: %v", err, err2), detail)
				return
			}
			if !got.Equal(want, 0) {
				c.Violate("prj-differs", "Decoder.SR() differs from proj.Parse of the .prj text", detail)
			}
		})
		for _, ext := range []string{".shp", ".shx", ".dbf", ".prj"} {
			os.Remove(base + ext)
		}
		if rec != nil {
			c.Violate("prj-panic", fmt.Sprintf("reading the .prj panicked: %v", core.Trunc(fmt.Sprint(rec), 150)), detail)
		}
	}
}

var numParam = regexp.MustCompile(`\+(lon_0|lat_0|lat_1|lat_2|x_0|y_0|k_0|lat_ts)=(-?[0-9][0-9.eE+-]*)`)

// twinCheck derives a near twin of the definition - one numeric parameter negated, or nudged by
// a relative 1e-6 - and judges the "nil transformer exactly for Equal references" clause
// semantically: Equal and (NewTransform == nil) must agree, and a nil (identity) transformer is
// only right if both definitions really project a position to the same coordinates.
func twinCheck(c *core.Ctx, s *sys) {
	r := c.R
	ms := numParam.FindAllStringSubmatchIndex(s.proj4, -1)
	if len(ms) == 0 {
		return
	}
	m := ms[r.Intn(len(ms))]
	name, val := s.proj4[m[2]:m[3]], s.proj4[m[4]:m[5]]
	v, err := strconv.ParseFloat(val, 64)
	if err != nil || v == 0 {
		return
	}
	how := "negated"
	nv := -v
	if r.Chance(0.3) || name == "k_0" {
		how, nv = "nudged", v*(1+1e-6)
	}
	twin := s.proj4[:m[4]] + crsgen.F(nv) + s.proj4[m[5]:]
	detail := map[string]interface{}{"definition": s.proj4, "twin": twin, "parameter": name, "change": how}
	var A, B *proj.SR
	var t proj.Transformer
	var eq bool
	failed := ""
	if c.Guard("twin", detail, func() {
		var err error
		if A, err = proj.Parse(s.proj4); err != nil {
			failed = err.Error()
			return
		}
		if B, err = proj.Parse(twin); err != nil {
			failed = err.Error()
			return
		}
		eq = A.Equal(B, 3)
		if t, err = A.NewTransform(B); err != nil {
			failed = err.Error()
		}
	}) || failed != "" {
		c.Count("twin.unusable")
		return
	}
	c.Eval()
	c.Count("twin." + how)
	if eq != (t == nil) {
		c.Violate("twin:equal-vs-nil-transformer", fmt.Sprintf("Equal = %v but NewTransform returned nil = %v (parameter %s %s)", eq, t == nil, name, how), detail)
		return
	}
	if t != nil {
		return
	}
	// identity claimed: both definitions must map a position to the same coordinates
	lon, lat := s.lon0+r.Range(-s.dlon, s.dlon)*0.5, r.Range(s.latMin, s.latMax)
	src := wgs84Geo
	if s.towgs == 0 {
		src = s.geo4
	}
	a, b := once(src, s.proj4, lon, lat), once(src, twin, lon, lat)
	if a.err != "" || b.err != "" {
		c.Count("twin.position_unusable")
		return
	}
	d := math.Max(math.Abs(a.x-b.x), math.Abs(a.y-b.y))
	if s.name != "longlat" {
		d *= s.toMeter
	}
	detail["position"], detail["via_definition"], detail["via_twin"] = []float64{lon, lat}, []float64{a.x, a.y}, []float64{b.x, b.y}
	if d > 1e-6 {
		c.Violate("twin:identity-between-different-systems", fmt.Sprintf("NewTransform returns the nil (identity) transformer between two definitions that differ in %s (%s) and project (%v, %v) %.3g apart", name, how, lon, lat, d), detail)
	}
}
