// Package exact holds exact-arithmetic geometric predicates and measures
// (math/big rationals; every float64 is a rational, so these are exact for
// any finite input). They are written independently of the code under test.
package exact

import (
	"math"
	"math/big"
)

// P is a point.
type P struct{ X, Y float64 }

func rat(f float64) *big.Rat { return new(big.Rat).SetFloat64(f) }

// Orient returns the sign of the signed area of triangle abc
// (+1 counter-clockwise, -1 clockwise, 0 collinear), exactly.
func Orient(a, b, c P) int {
	dl := (b.X - a.X) * (c.Y - a.Y)
	dr := (b.Y - a.Y) * (c.X - a.X)
	det := dl - dr
	eb := 1e-15 * (math.Abs(dl) + math.Abs(dr))
	if det > eb {
		return 1
	}
	if det < -eb {
		return -1
	}
	return orientExact(a, b, c)
}

func orientExact(a, b, c P) int {
	ax, ay := rat(a.X), rat(a.Y)
	bx := new(big.Rat).Sub(rat(b.X), ax)
	by := new(big.Rat).Sub(rat(b.Y), ay)
	cx := new(big.Rat).Sub(rat(c.X), ax)
	cy := new(big.Rat).Sub(rat(c.Y), ay)
	l := bx.Mul(bx, cy)
	r := by.Mul(by, cx)
	return l.Cmp(r)
}

// OnSegment reports whether p lies on the closed segment ab, exactly.
func OnSegment(p, a, b P) bool {
	if p.X < math.Min(a.X, b.X) || p.X > math.Max(a.X, b.X) || p.Y < math.Min(a.Y, b.Y) || p.Y > math.Max(a.Y, b.Y) {
		return false
	}
	return Orient(a, b, p) == 0
}

// SegRelation classifies two closed segments.
type SegRelation int

// Relations.
const (
	Disjoint SegRelation = iota
	ProperCross
	Touch   // share exactly one point that is an endpoint of at least one of them
	Overlap // collinear and share more than one point
)

// Segments classifies the intersection of closed segments ab and cd exactly.
func Segments(a, b, c, d P) SegRelation {
	// quick reject
	if math.Max(a.X, b.X) < math.Min(c.X, d.X) || math.Max(c.X, d.X) < math.Min(a.X, b.X) ||
		math.Max(a.Y, b.Y) < math.Min(c.Y, d.Y) || math.Max(c.Y, d.Y) < math.Min(a.Y, b.Y) {
		return Disjoint
	}
	o1 := Orient(a, b, c)
	o2 := Orient(a, b, d)
	o3 := Orient(c, d, a)
	o4 := Orient(c, d, b)
	if o1 == 0 && o2 == 0 && o3 == 0 && o4 == 0 {
		// collinear (or degenerate)
		if a == b && c == d {
			if a == c {
				return Touch
			}
			return Disjoint
		}
		// project on dominant axis
		key := func(p P) float64 {
			if math.Abs(b.X-a.X)+math.Abs(d.X-c.X) >= math.Abs(b.Y-a.Y)+math.Abs(d.Y-c.Y) {
				return p.X
			}
			return p.Y
		}
		a0, a1 := math.Min(key(a), key(b)), math.Max(key(a), key(b))
		c0, c1 := math.Min(key(c), key(d)), math.Max(key(c), key(d))
		lo, hi := math.Max(a0, c0), math.Min(a1, c1)
		if lo > hi {
			return Disjoint
		}
		if lo == hi {
			return Touch
		}
		return Overlap
	}
	if o1*o2 < 0 && o3*o4 < 0 {
		return ProperCross
	}
	if (o1 == 0 && OnSegment(c, a, b)) || (o2 == 0 && OnSegment(d, a, b)) ||
		(o3 == 0 && OnSegment(a, c, d)) || (o4 == 0 && OnSegment(b, c, d)) {
		return Touch
	}
	return Disjoint
}

// Area2 returns twice the signed area of the ring (implicit closing segment;
// a repeated closing vertex contributes nothing), exactly.
func Area2(ring []P) *big.Rat {
	s := new(big.Rat)
	n := len(ring)
	if n < 3 {
		return s
	}
	t := new(big.Rat)
	for i := 0; i < n; i++ {
		p, q := ring[i], ring[(i+1)%n]
		t.Mul(rat(p.X), rat(q.Y))
		s.Add(s, t)
		t.Mul(rat(q.X), rat(p.Y))
		s.Sub(s, t)
	}
	return s
}

// RingMoments returns twice the signed area and six times the signed first
// moments (so that centroid = (mx/(3*a2), my/(3*a2))).
func RingMoments(ring []P) (a2, mx, my *big.Rat) {
	a2, mx, my = new(big.Rat), new(big.Rat), new(big.Rat)
	n := len(ring)
	if n < 3 {
		return
	}
	for i := 0; i < n; i++ {
		p, q := ring[i], ring[(i+1)%n]
		px, py, qx, qy := rat(p.X), rat(p.Y), rat(q.X), rat(q.Y)
		cr := new(big.Rat).Sub(new(big.Rat).Mul(px, qy), new(big.Rat).Mul(qx, py))
		a2.Add(a2, cr)
		mx.Add(mx, new(big.Rat).Mul(new(big.Rat).Add(px, qx), cr))
		my.Add(my, new(big.Rat).Mul(new(big.Rat).Add(py, qy), cr))
	}
	return
}

// AbsRat returns |x| as a new value.
func AbsRat(x *big.Rat) *big.Rat { return new(big.Rat).Abs(x) }

// F returns the nearest float64.
func F(x *big.Rat) float64 { f, _ := x.Float64(); return f }

// Status of a point against a set of rings.
type Status int

// Point statuses.
const (
	Outside Status = iota
	Inside
	OnEdge
)

// PointInRings classifies p against rings with the even-odd rule, exactly.
// Rings with fewer than minVerts vertices are ignored. The implicit closing
// segment is included.
func PointInRings(p P, rings [][]P, minVerts int) Status {
	cross := 0
	for _, r := range rings {
		n := len(r)
		if n < minVerts || n == 0 {
			continue
		}
		for i := 0; i < n; i++ {
			a, b := r[i], r[(i+1)%n]
			if OnSegment(p, a, b) {
				return OnEdge
			}
			// half-open rule: count edges with a.Y <= p.Y < b.Y or b.Y <= p.Y < a.Y that are to the right
			if (a.Y <= p.Y) != (b.Y <= p.Y) {
				// orientation of (a,b,p) relative to the edge direction
				o := Orient(a, b, p)
				if b.Y > a.Y {
					if o > 0 { // p is left of upward edge -> ray to +x crosses
						cross++
					}
				} else {
					if o < 0 {
						cross++
					}
				}
			}
		}
	}
	if cross%2 == 1 {
		return Inside
	}
	return Outside
}

// DistPointSeg returns the Euclidean distance from p to closed segment ab in
// float64, computed with 200-bit intermediate precision.
func DistPointSeg(p, a, b P) float64 {
	// precision: enough for the differences and their products to be exact whatever the spread
	// of the magnitudes (a vertex at 1e200 next to ordinary ones needs far more than 300 bits)
	prec := uint(300)
	lo, hi, any := 0, 0, false
	for _, x := range []float64{p.X, p.Y, a.X, a.Y, b.X, b.Y} {
		if x == 0 || math.IsInf(x, 0) || math.IsNaN(x) {
			continue
		}
		_, e := math.Frexp(x)
		if !any || e < lo {
			lo = e
		}
		if !any || e > hi {
			hi = e
		}
		any = true
	}
	if w := uint(2*(hi-lo+54) + 64); w > prec {
		prec = w
	}
	bf := func(x float64) *big.Float { return new(big.Float).SetPrec(prec).SetFloat64(x) }
	sub := func(x, y *big.Float) *big.Float { return new(big.Float).SetPrec(prec).Sub(x, y) }
	mul := func(x, y *big.Float) *big.Float { return new(big.Float).SetPrec(prec).Mul(x, y) }
	add := func(x, y *big.Float) *big.Float { return new(big.Float).SetPrec(prec).Add(x, y) }
	abx, aby := sub(bf(b.X), bf(a.X)), sub(bf(b.Y), bf(a.Y))
	apx, apy := sub(bf(p.X), bf(a.X)), sub(bf(p.Y), bf(a.Y))
	l2 := add(mul(abx, abx), mul(aby, aby))
	var d2 *big.Float
	if l2.Sign() == 0 {
		d2 = add(mul(apx, apx), mul(apy, apy))
	} else {
		t := add(mul(apx, abx), mul(apy, aby))
		if t.Sign() <= 0 {
			d2 = add(mul(apx, apx), mul(apy, apy))
		} else if t.Cmp(l2) >= 0 {
			bpx, bpy := sub(bf(p.X), bf(b.X)), sub(bf(p.Y), bf(b.Y))
			d2 = add(mul(bpx, bpx), mul(bpy, bpy))
		} else {
			cr := sub(mul(abx, apy), mul(aby, apx))
			d2 = new(big.Float).SetPrec(prec).Quo(mul(cr, cr), l2)
		}
	}
	r := new(big.Float).SetPrec(prec).Sqrt(d2)
	f, _ := r.Float64()
	return f
}

// Length returns the length of the polyline with extended precision.
func Length(pts []P) float64 {
	const prec = 200
	s := new(big.Float).SetPrec(prec)
	for i := 0; i+1 < len(pts); i++ {
		dx := new(big.Float).SetPrec(prec).Sub(new(big.Float).SetPrec(prec).SetFloat64(pts[i+1].X), new(big.Float).SetPrec(prec).SetFloat64(pts[i].X))
		dy := new(big.Float).SetPrec(prec).Sub(new(big.Float).SetPrec(prec).SetFloat64(pts[i+1].Y), new(big.Float).SetPrec(prec).SetFloat64(pts[i].Y))
		d2 := new(big.Float).SetPrec(prec).Add(dx.Mul(dx, dx), dy.Mul(dy, dy))
		s.Add(s, d2.Sqrt(d2))
	}
	f, _ := s.Float64()
	return f
}

// SimplePolyline reports whether the open polyline is simple: no two
// segments meet except consecutive ones at their shared vertex. On failure it
// returns the indices of an offending segment pair.
func SimplePolyline(pts []P) (bool, int, int) {
	n := len(pts) - 1 // segments
	for i := 0; i < n; i++ {
		if pts[i] == pts[i+1] {
			return false, i, i
		}
	}
	for i := 0; i < n; i++ {
		for j := i + 1; j < n; j++ {
			rel := Segments(pts[i], pts[i+1], pts[j], pts[j+1])
			if j == i+1 {
				// may only share the common vertex
				if rel == Overlap || rel == ProperCross {
					return false, i, j
				}
				if rel == Touch {
					// touching must be exactly at the shared vertex: check that neither other endpoint lies on the other segment
					if OnSegment(pts[i], pts[j], pts[j+1]) || OnSegment(pts[j+1], pts[i], pts[i+1]) {
						return false, i, j
					}
				}
				continue
			}
			if rel != Disjoint {
				return false, i, j
			}
		}
	}
	return true, -1, -1
}

// SimpleRing reports whether the ring (implicitly closed, no repeated closing
// vertex) is a simple polygon.
func SimpleRing(r []P) bool {
	n := len(r)
	if n < 3 {
		return false
	}
	for i := 0; i < n; i++ {
		if r[i] == r[(i+1)%n] {
			return false
		}
	}
	for i := 0; i < n; i++ {
		for j := i + 1; j < n; j++ {
			a, b, c, d := r[i], r[(i+1)%n], r[j], r[(j+1)%n]
			rel := Segments(a, b, c, d)
			adjacent := j == i+1 || (i == 0 && j == n-1)
			if adjacent {
				if rel == Overlap || rel == ProperCross {
					return false
				}
				if n == 3 {
					continue
				}
				// shared vertex only
				var s P
				if j == i+1 {
					s = b
				} else {
					s = a
				}
				for _, q := range []P{a, b, c, d} {
					if q == s {
						continue
					}
					if (q == a || q == b) && OnSegment(q, c, d) {
						return false
					}
					if (q == c || q == d) && OnSegment(q, a, b) {
						return false
					}
				}
				continue
			}
			if rel != Disjoint {
				return false
			}
		}
	}
	return Area2(r).Sign() != 0
}

// DistToRings returns the minimum float distance from p to any edge (closing
// edge included) of the rings (plain float64; used only for margins).
func DistToRings(p P, rings [][]P) float64 {
	d := math.Inf(1)
	for _, r := range rings {
		n := len(r)
		for i := 0; i < n; i++ {
			d = math.Min(d, fdist(p, r[i], r[(i+1)%n]))
		}
	}
	return d
}

func fdist(p, a, b P) float64 {
	abx, aby := b.X-a.X, b.Y-a.Y
	l2 := abx*abx + aby*aby
	if l2 == 0 {
		return math.Hypot(p.X-a.X, p.Y-a.Y)
	}
	t := ((p.X-a.X)*abx + (p.Y-a.Y)*aby) / l2
	if t < 0 {
		t = 0
	} else if t > 1 {
		t = 1
	}
	return math.Hypot(p.X-(a.X+t*abx), p.Y-(a.Y+t*aby))
}

// FDistSeg is the float64 point-segment distance.
func FDistSeg(p, a, b P) float64 { return fdist(p, a, b) }
