// Package c05 monitors property C05: WKB and hex encoding are lossless and
// byte-exact to the OGC layout.
package c05

import (
	"bytes"
	"encoding/binary"
	enchex "encoding/hex"
	"fmt"
	"io"
	"math"
	"testing/iotest"

	"github.com/ctessum/geom"
	"github.com/ctessum/geom/encoding/hex"
	"github.com/ctessum/geom/encoding/wkb"

	"verifharness/internal/core"
	"verifharness/internal/gen"
	"verifharness/internal/refcodec"
)

func init() {
	core.Register(&core.Prop{
		ID: "C05",
		Rule: "case = one random geometry of the seven encodable types (member counts 0-40, collections nested to depth 6 quick / 50 thorough, coordinates = arbitrary 64-bit patterns incl. NaN payloads, -0, ±Inf, subnormals) encoded in both byte orders and compared byte-for-byte with the harness's independent OGC serializer, decoded back (bitwise structural equality), decoded from a mixed-byte-order encoding, streamed through one-byte readers, and through the hex codec; " +
			"non-trivial = geometry with a nested element or an empty member or a special-value coordinate; distinct by content hash",
		Assumptions: []string{"the independent serializer follows OGC 06-103r4 §8.2 (2-D geometries only)", "empty slices are compared by length, not nil-ness"},
		Phases: []core.Phase{{Name: "roundtrip", NumCases: func(t string) int {
			if t == "thorough" {
				return 1500000
			}
			return 40000
		}}},
		Run:   run,
		Setup: func(c *core.Ctx) { c.State = &aliasState{} },
		Floors: func(t string) map[string]int64 {
			return map[string]int64{"coord.nan_payload": 100, "reader.data_with_eof": 1000, "coord.neg_zero": 100, "nested.depth>=2": 100, "empty.member": 100, "mixed_order.decoded": 1000, "path.len>=255": 50, "path.len>=4097": 20, "history.failed_call_first": 1000,
				"type.Point": 10, "type.MultiPoint": 10, "type.LineString": 10, "type.MultiLineString": 10, "type.Polygon": 10, "type.MultiPolygon": 10, "type.GeometryCollection": 10}
		},
	})
}

// GenGeom draws a geometry for the WKB workloads (also used by C07).
func GenGeom(r *gen.R, maxDepth int, coord func(*gen.R) float64) geom.Geom {
	o := &gen.GeomOpts{Coord: coord, MaxMembers: 4, MaxVerts: 6, MinVerts: 0, MinMembers: 0, MaxDepth: 3}
	if r.Chance(0.1) {
		o.MaxMembers = 40
		o.MaxDepth = 1
	}
	if r.Chance(0.1) {
		o.MaxVerts = 40
	}
	g := gen.RandGeom(r, o, 0)
	if r.Chance(0.004) {
		// very many EMPTY nested collections (and empty multi-geometries) followed by a non-empty
		// collection: anything counted per nested element (depth, budget) is exercised without depth
		n := []int{127, 1024, 4097, 9999, 10000, 10001, 12000, 16385, 32769, 65537}[r.Intn(10)]
		gc := make(geom.GeometryCollection, 0, n+2)
		for i := 0; i < n; i++ {
			switch r.Intn(4) {
			case 0:
				gc = append(gc, geom.MultiPolygon{})
			default:
				gc = append(gc, geom.GeometryCollection{})
			}
		}
		gc = append(gc, geom.GeometryCollection{geom.Point{X: coord(r), Y: coord(r)}, geom.GeometryCollection{geom.LineString{{X: coord(r), Y: coord(r)}}}})
		g = gc
		if r.Bool() {
			g = geom.GeometryCollection{geom.Point{X: 1, Y: 2}, gc}
		}
	} else if r.Chance(0.01) {
		// 127..8192 small members
		g = gen.ManyMembers(r, []int{gen.KMultiPoint, gen.KMultiLineString, gen.KPolygon, gen.KMultiPolygon}[r.Intn(4)], coord)
		if r.Bool() {
			g = geom.GeometryCollection{g, geom.Point{X: coord(r), Y: coord(r)}}
		}
	} else if r.Chance(0.04) {
		// long paths (beyond any internal read-chunk size of the decoder: 255, 256, 257, 512, 1000+ points)
		n := []int{255, 256, 257, 511, 512, 513, 1000, 2049}[r.Intn(8)]
		if r.Chance(0.3) {
			n = gen.BigLen(r) // up to 65537: beyond chunk sizes of 4096 / 64 KiB
		}
		pts := make([]geom.Point, n)
		for i := range pts {
			pts[i] = geom.Point{X: coord(r), Y: coord(r)}
		}
		switch r.Intn(4) {
		case 0:
			g = geom.LineString(pts)
		case 1:
			g = geom.Polygon{pts[:n/2], pts[n/2:]}
		case 2:
			g = geom.MultiPoint(pts)
		default:
			g = geom.GeometryCollection{geom.MultiLineString{pts}, geom.Point{X: coord(r), Y: coord(r)}}
		}
	}
	// deep chains of collections
	if r.Chance(0.15) {
		k := r.IntRange(1, maxDepth)
		for i := 0; i < k; i++ {
			gc := geom.GeometryCollection{g}
			if r.Chance(0.3) {
				gc = append(gc, geom.Point{X: coord(r), Y: coord(r)})
			}
			g = gc
		}
	}
	return g
}

func depthOf(g geom.Geom) int {
	switch t := g.(type) {
	case geom.GeometryCollection:
		d := 0
		for _, m := range t {
			if x := depthOf(m); x > d {
				d = x
			}
		}
		return d + 1
	case geom.MultiPoint, geom.MultiLineString, geom.MultiPolygon:
		return 1
	}
	return 0
}

func coordStats(c *core.Ctx, g geom.Geom) (special bool) {
	for _, p := range gen.Flatten(g) {
		for _, v := range []float64{p.X, p.Y} {
			switch {
			case math.IsNaN(v):
				c.Count("coord.nan_payload")
				special = true
			case v == 0 && math.Signbit(v):
				c.Count("coord.neg_zero")
				special = true
			case math.IsInf(v, 0):
				c.Count("coord.inf")
				special = true
			case v != 0 && math.Abs(v) < 2.3e-308:
				c.Count("coord.subnormal")
				special = true
			}
		}
	}
	return
}

func hasEmptyMember(g geom.Geom) bool {
	switch t := g.(type) {
	case geom.MultiPoint:
		return len(t) == 0
	case geom.LineString:
		return len(t) == 0
	case geom.MultiLineString:
		if len(t) == 0 {
			return true
		}
		for _, m := range t {
			if len(m) == 0 {
				return true
			}
		}
	case geom.Polygon:
		if len(t) == 0 {
			return true
		}
		for _, m := range t {
			if len(m) == 0 {
				return true
			}
		}
	case geom.MultiPolygon:
		if len(t) == 0 {
			return true
		}
		for _, m := range t {
			if hasEmptyMember(m) {
				return true
			}
		}
	case geom.GeometryCollection:
		if len(t) == 0 {
			return true
		}
		for _, m := range t {
			if hasEmptyMember(m) {
				return true
			}
		}
	}
	return false
}

func tname(g geom.Geom) string { return fmt.Sprintf("%T", g)[len("geom."):] }

func run(c *core.Ctx, idx int) {
	r := c.R
	maxDepth := 6
	if c.Thorough() {
		maxDepth = 50
	}
	g := GenGeom(r, maxDepth, gen.BitsCoord)
	name := tname(g)
	c.Count("type." + name)
	d := depthOf(g)
	if d >= 2 {
		c.Count("nested.depth>=2")
	}
	c.Max("nesting_depth", float64(d))
	if g.Len() >= 255 {
		c.Count("path.len>=255")
	}
	if g.Len() >= 4097 {
		c.Count("path.len>=4097")
	}
	special := coordStats(c, g)
	empty := hasEmptyMember(g)
	if empty {
		c.Count("empty.member")
	}
	h := core.NewHasher()
	gen.HashGeom(h, g)
	if special || empty || d >= 1 {
		c.Nontrivial(h.Sum())
	}
	detail := map[string]interface{}{"geometry": gen.Dump(g)}
	if c.WantSample() && d >= 1 {
		c.Sample(detail)
	}
	if r.Chance(0.08) {
		// an earlier call that fails: a collection holding a member the codec cannot encode
		// (a *Bounds, a nil) after some members it can; also decoders fed a truncated or
		// malformed input, and a reader that hit an error. Whatever the failed call left behind
		// must not leak into the calls judged below.
		var bad geom.Geom
		switch r.Intn(3) {
		case 0:
			bad = geom.GeometryCollection{geom.Point{X: 3, Y: 4}, &geom.Bounds{Min: geom.Point{X: 0, Y: 0}, Max: geom.Point{X: 1, Y: 1}}}
		case 1:
			bad = geom.GeometryCollection{geom.LineString{{X: 1, Y: 2}, {X: 3, Y: 4}}, geom.GeometryCollection{geom.Point{X: 5, Y: 6}, nil}}
		default:
			bad = geom.GeometryCollection{geom.MultiPoint{{X: 1, Y: 1}}, geom.Polygon{{{X: 0, Y: 0}, {X: 1, Y: 0}, {X: 0, Y: 1}}}, &geom.Bounds{}}
		}
		core.Try(func() {
			if r.Bool() {
				wkb.Encode(bad, wkb.NDR)
			} else {
				hex.Encode(bad, wkb.XDR)
			}
		})
		core.Try(func() { wkb.Decode([]byte{1, 7, 0, 0, 0, 2, 0, 0, 0, 1, 1, 0, 0, 0, 0, 0}) })
		core.Try(func() { hex.Decode("0107000000020000000101") })
		core.Try(func() { wkb.Read(bytes.NewReader([]byte{0, 0, 0, 0, 2, 0, 0, 0, 9, 1, 2, 3})) })
		c.Count("history.failed_call_first")
	}
	for _, le := range []bool{false, true} {
		c.Eval()
		var bo binary.ByteOrder = wkb.XDR
		oname := "XDR"
		if le {
			bo = wkb.NDR
			oname = "NDR"
		}
		ref, err := refcodec.WKB(g, func() bool { return le })
		if err != nil {
			panic(err)
		}
		var enc []byte
		if c.Guard("wkb.Encode", detail, func() { enc, err = wkb.Encode(g, bo) }) {
			return
		}
		if err != nil {
			c.Violate("encode-error:"+name, fmt.Sprintf("wkb.Encode(%s,%s) error: %v", name, oname, err), detail)
			return
		}
		if st, ok := c.State.(*aliasState); ok {
			if st.prev != nil && !bytes.Equal(st.prev, st.prevCopy) {
				c.Violate("encode-output-mutated", "the bytes returned by an earlier wkb.Encode call changed after a later call", map[string]interface{}{"earlier": enchex.EncodeToString(st.prevCopy), "now": enchex.EncodeToString(st.prev)})
			}
			st.prev, st.prevCopy = enc, append([]byte(nil), enc...)
		}
		if !bytes.Equal(enc, ref) {
			off := 0
			for off < len(enc) && off < len(ref) && enc[off] == ref[off] {
				off++
			}
			c.Violate("encode-bytes:"+name+":"+oname, fmt.Sprintf("wkb.Encode(%s,%s) differs from the OGC layout at byte %d (len %d vs %d)", name, oname, off, len(enc), len(ref)),
				map[string]interface{}{"geometry": gen.Dump(g), "got": enchex.EncodeToString(enc), "want": enchex.EncodeToString(ref)})
		}
		// decode the reference bytes (so that an encoder defect cannot hide a decoder defect)
		var dec geom.Geom
		if c.Guard("wkb.Decode", detail, func() { dec, err = wkb.Decode(ref) }) {
			return
		}
		if err != nil {
			c.Violate("decode-error:"+name+":"+oname, fmt.Sprintf("wkb.Decode of a valid %s %s encoding: %v", oname, name, err), detail)
		} else if ok, why := gen.SameStructure(g, dec); !ok {
			c.Violate("decode-value:"+name+":"+oname, fmt.Sprintf("Decode(Encode(g)) differs (%s): %s", oname, why), detail)
		}
		// Write / Read through streams
		var buf bytes.Buffer
		c.Guard("wkb.Write", detail, func() {
			if err := wkb.Write(&buf, bo, g); err != nil {
				c.Violate("write-error:"+name, fmt.Sprintf("wkb.Write error: %v", err), detail)
			} else if !bytes.Equal(buf.Bytes(), ref) {
				c.Violate("write-bytes:"+name+":"+oname, "wkb.Write output differs from the OGC layout", detail)
			}
		})
		c.Guard("wkb.Read", detail, func() {
			// two concatenated encodings through a one-byte-at-a-time reader ...
			// ... or through a reader that hands over the last bytes together with io.EOF (as gzip
			// readers and HTTP bodies do), or that delivers half of what is asked for
			var rd io.Reader = bytes.NewReader(append(append([]byte{}, ref...), ref...))
			switch c.R.Intn(3) {
			case 0:
				rd = iotest.OneByteReader(rd)
			case 1:
				rd = iotest.DataErrReader(rd)
				c.Count("reader.data_with_eof")
			default:
				rd = iotest.DataErrReader(iotest.HalfReader(rd))
				c.Count("reader.data_with_eof")
			}
			for k := 0; k < 2; k++ {
				got, err := wkb.Read(rd)
				if err != nil {
					c.Violate("read-error:"+name, fmt.Sprintf("wkb.Read #%d from a stream: %v", k, err), detail)
					return
				}
				if ok, why := gen.SameStructure(g, got); !ok {
					c.Violate("read-value:"+name, fmt.Sprintf("wkb.Read #%d from a stream differs: %s", k, why), detail)
					return
				}
			}
		})
		// hex
		c.Guard("hex", detail, func() {
			s, err := hex.Encode(g, bo)
			if err != nil {
				c.Violate("hex-encode-error:"+name, fmt.Sprintf("hex.Encode error: %v", err), detail)
				return
			}
			if s != enchex.EncodeToString(ref) {
				c.Violate("hex-encode-bytes:"+name, "hex.Encode is not the lower-case hex of the OGC bytes", map[string]interface{}{"geometry": gen.Dump(g), "got": s, "want": enchex.EncodeToString(ref)})
			}
			got, err := hex.Decode(enchex.EncodeToString(ref))
			if err != nil {
				c.Violate("hex-decode-error:"+name, fmt.Sprintf("hex.Decode of a valid encoding: %v", err), detail)
			} else if ok, why := gen.SameStructure(g, got); !ok {
				c.Violate("hex-decode-value:"+name, "hex.Decode(hex.Encode(g)) differs: "+why, detail)
			}
		})
	}
	// mixed byte order per nested element
	c.Eval()
	mixed, _ := refcodec.WKB(g, func() bool { return r.Bool() })
	c.Guard("wkb.Decode(mixed)", detail, func() {
		dec, err := wkb.Decode(mixed)
		c.Count("mixed_order.decoded")
		if err != nil {
			c.Violate("mixed-decode-error:"+name, fmt.Sprintf("wkb.Decode rejects a mixed-byte-order encoding: %v", err), map[string]interface{}{"geometry": gen.Dump(g), "bytes": enchex.EncodeToString(mixed)})
		} else if ok, why := gen.SameStructure(g, dec); !ok {
			c.Violate("mixed-decode-value:"+name, "decoding a mixed-byte-order encoding differs: "+why, map[string]interface{}{"geometry": gen.Dump(g), "bytes": enchex.EncodeToString(mixed)})
		}
	})
}

type aliasState struct{ prev, prevCopy []byte }
