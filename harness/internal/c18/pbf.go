package c18

import "encoding/binary"

// A minimal OSM PBF writer (raw blobs, DenseNodes, plain ways and relations),
// written from the format description so that generated documents also go
// through ExtractPBF. Each run of same-kind elements in the document's order
// becomes its own PrimitiveBlock.

func pbVarint(b []byte, v uint64) []byte {
	for v >= 0x80 {
		b = append(b, byte(v)|0x80)
		v >>= 7
	}
	return append(b, byte(v))
}

func pbKey(b []byte, field, wire int) []byte { return pbVarint(b, uint64(field<<3|wire)) }

func pbBytes(b []byte, field int, data []byte) []byte {
	b = pbKey(b, field, 2)
	b = pbVarint(b, uint64(len(data)))
	return append(b, data...)
}

func pbInt(b []byte, field int, v uint64) []byte { return pbVarint(pbKey(b, field, 0), v) }

func zz(v int64) uint64 { return uint64(v<<1) ^ uint64(v>>63) }

func packed(vals []uint64) []byte {
	var b []byte
	for _, v := range vals {
		b = pbVarint(b, v)
	}
	return b
}

type strtab struct {
	idx map[string]int
	s   []string
}

func newStrtab() *strtab { return &strtab{idx: map[string]int{"": 0}, s: []string{""}} }

func (t *strtab) id(s string) uint64 {
	if i, ok := t.idx[s]; ok {
		return uint64(i)
	}
	t.idx[s] = len(t.s)
	t.s = append(t.s, s)
	return uint64(len(t.s) - 1)
}

func fileBlock(kind string, payload []byte) []byte {
	blob := pbBytes(nil, 1, payload)         // raw
	blob = pbInt(blob, 2, uint64(len(payload))) // raw_size
	hdr := pbBytes(nil, 1, []byte(kind))
	hdr = pbInt(hdr, 3, uint64(len(blob)))
	var out []byte
	var sz [4]byte
	binary.BigEndian.PutUint32(sz[:], uint32(len(hdr)))
	out = append(out, sz[:]...)
	out = append(out, hdr...)
	return append(out, blob...)
}

// coordUnits converts degrees to the PBF unit (1e-7 degree at granularity 100).
func coordUnits(v float64) int64 {
	if v >= 0 {
		return int64(v*1e7 + 0.5)
	}
	return -int64(-v*1e7 + 0.5)
}

// normCoord is the value a PBF reader reconstructs for v.
func normCoord(v float64) float64 { return 1e-9 * float64(100*coordUnits(v)) }

func (d *doc) pbf() []byte {
	hb := pbBytes(nil, 4, []byte("OsmSchema-V0.6"))
	hb = pbBytes(hb, 4, []byte("DenseNodes"))
	out := fileBlock("OSMHeader", hb)
	for i := 0; i < len(d.order); {
		j := i
		for j < len(d.order) && d.order[j].kind == d.order[i].kind {
			j++
		}
		st := newStrtab()
		var group []byte
		switch d.order[i].kind {
		case 'n':
			var ids, lats, lons, kv []uint64
			var pid, plat, plon int64
			anyTags := false
			for _, e := range d.order[i:j] {
				if len(d.nodes[e.idx].Tags) > 0 {
					anyTags = true
				}
			}
			for _, e := range d.order[i:j] {
				n := d.nodes[e.idx]
				la, lo := coordUnits(n.Lat), coordUnits(n.Lon)
				ids = append(ids, zz(n.ID-pid))
				lats = append(lats, zz(la-plat))
				lons = append(lons, zz(lo-plon))
				pid, plat, plon = n.ID, la, lo
				if anyTags {
					for _, t := range n.Tags {
						kv = append(kv, st.id(t.K), st.id(t.V))
					}
					kv = append(kv, 0)
				}
			}
			dn := pbBytes(nil, 1, packed(ids))
			dn = pbBytes(dn, 8, packed(lats))
			dn = pbBytes(dn, 9, packed(lons))
			if anyTags {
				dn = pbBytes(dn, 10, packed(kv))
			}
			group = pbBytes(nil, 2, dn)
		case 'w':
			for _, e := range d.order[i:j] {
				w := d.ways[e.idx]
				var keys, vals, refs []uint64
				for _, t := range w.Tags {
					keys = append(keys, st.id(t.K))
					vals = append(vals, st.id(t.V))
				}
				var prev int64
				for _, n := range w.Nodes {
					refs = append(refs, zz(n-prev))
					prev = n
				}
				m := pbInt(nil, 1, uint64(w.ID))
				if len(keys) > 0 {
					m = pbBytes(m, 2, packed(keys))
					m = pbBytes(m, 3, packed(vals))
				}
				m = pbBytes(m, 8, packed(refs))
				group = pbBytes(group, 3, m)
			}
		case 'r':
			for _, e := range d.order[i:j] {
				rl := d.rels[e.idx]
				var keys, vals, roles, mem, types []uint64
				for _, t := range rl.Tags {
					keys = append(keys, st.id(t.K))
					vals = append(vals, st.id(t.V))
				}
				var prev int64
				for _, m := range rl.Members {
					roles = append(roles, 0)
					mem = append(mem, zz(m.Ref-prev))
					prev = m.Ref
					types = append(types, map[byte]uint64{'n': 0, 'w': 1, 'r': 2}[m.Type])
				}
				m := pbInt(nil, 1, uint64(rl.ID))
				if len(keys) > 0 {
					m = pbBytes(m, 2, packed(keys))
					m = pbBytes(m, 3, packed(vals))
				}
				m = pbBytes(m, 8, packed(roles))
				m = pbBytes(m, 9, packed(mem))
				m = pbBytes(m, 10, packed(types))
				group = pbBytes(group, 4, m)
			}
		}
		var stb []byte
		for _, s := range st.s {
			stb = pbBytes(stb, 1, []byte(s))
		}
		pb := pbBytes(nil, 1, stb)
		pb = pbBytes(pb, 2, group)
		out = append(out, fileBlock("OSMData", pb)...)
		i = j
	}
	return out
}
