// Package c18 monitors property C18: OSM extraction is referentially closed
// and independent of goroutine scheduling.
package c18

import (
	"bytes"
	"context"
	"fmt"
	"io"
	"os"
	"path/filepath"
	"runtime"
	"sort"
	"strings"
	"sync"
	"sync/atomic"
	"time"

	"github.com/ctessum/geom"
	gosm "github.com/ctessum/geom/encoding/osm"
	"github.com/paulmach/osm"
	"github.com/paulmach/osm/osmpbf"

	"verifharness/internal/core"
	"verifharness/internal/gen"
)

func init() {
	phases := []core.Phase{
		{Name: "schedules", NumCases: func(t string) int {
			if t == "thorough" {
				return 6000
			}
			return 160
		}},
		{Name: "race", Race: true, NumCases: func(t string) int {
			if t == "thorough" {
				return 1500
			}
			return 40
		}},
		{Name: "pbf", Workers: 4, NumCases: func(t string) int {
			if t == "thorough" {
				return 8
			}
			return 0
		}},
	}
	core.Register(&core.Prop{
		ID: "C18",
		Rule: "case = one generated OSM XML document of 5-80 elements (a quarter: tiny documents of 2-6 nodes, 1-2 ways, at most one relation) (nodes inside / outside / on the edge of the box, ways sharing nodes, relations of nodes, ways and relations including chains and cycles, optional dangling references; element order canonical, shuffled or ways-first) extracted with KeepTags, KeepBounds and KeepAll under ~12 schedules each: GOMAXPROCS 1/2/4/16 free running, hook-driven perturbation (Gosched / microsecond sleeps at the schedule points) and forced adversarial windows (a referent's store is held at its schedule point until the object that depends on it has been judged; in the handshake variant that object is then held at the end of its judgement until the storing worker is returning); " +
			"oracle = sequential least-fixpoint model of the document (keep function evaluated against the growing set, references followed transitively); also Check(), run-to-run equality, and Filter laws (equals the model on its input, idempotent, subset, closed); the whole workload is repeated under the Go race detector; thorough adds the bundled Honolulu PBF with a model computed from a direct scan; " +
			"an evaluation is one extraction (or Filter) judged; non-trivial = extraction during which an object was judged while one of its referents was between judgement and storage (window observed on the hook trace); distinct by hook-trace hash",
		Assumptions: []string{"schedules are sampled and forced at hook points, not exhausted", "the 2 s safety release of a forced window only protects the harness; when it fires the run is counted as 'window not forced'", "generated documents are small on purpose (the window is one object wide)"},
		Phases:      phases,
		Run:         run,
		Floors: func(t string) map[string]int64 {
			return map[string]int64{"runs.free": 1000, "reader.not_at_its_start_when_handed_over": 500, "runs.perturbed": 300, "runs.forced": 200, "window.forced_observed": 100, "window.handshake_runs": 100, "doc.tiny": 8, "doc.negative_ids": 8, "doc.ids_beyond_2^40": 8, "keep.tags": 100, "keep.tags.empty_string_among_wanted_values": 15, "doc.with_a_rejected_element": 1, "doc.way_without_nodes": 30, "doc.empty_member_shared_by_two_relations": 8, "doc.relation_without_members": 15, "keep.bounds": 100, "keep.all": 100,
				"order.shuffled": 8, "order.ways_first": 3, "order.reverse_cascade": 3, "doc.cascade": 20, "doc.relation_cycle": 5, "doc.dangling": 1, "filter.checked": 100, "gomaxprocs.16": 50, "format.pbf": 300, "format.xml": 1000}
		},
	})
}

type tag struct{ K, V string }
type dnode struct {
	ID       int64
	Lat, Lon float64
	Tags     []tag
}
type dway struct {
	ID    int64
	Nodes []int64
	Tags  []tag
}
type member struct {
	Type byte // n, w, r
	Ref  int64
}
type drel struct {
	ID      int64
	Members []member
	Tags    []tag
}
type elem struct {
	kind byte
	idx  int
}
type doc struct {
	nodes []dnode
	ways  []dway
	rels  []drel
	order []elem
	box   geom.Bounds
	desc  string
}

func tagsXML(ts []tag) string {
	var b strings.Builder
	for _, t := range ts {
		fmt.Fprintf(&b, `<tag k=%q v=%q/>`, t.K, t.V)
	}
	return b.String()
}

func (d *doc) xml() []byte {
	var b bytes.Buffer
	b.WriteString("<?xml version=\"1.0\" encoding=\"UTF-8\"?>\n<osm version=\"0.6\" generator=\"verif\">\n")
	for _, e := range d.order {
		switch e.kind {
		case 'n':
			n := d.nodes[e.idx]
			fmt.Fprintf(&b, " <node id=\"%d\" lat=\"%v\" lon=\"%v\" version=\"1\">%s</node>\n", n.ID, n.Lat, n.Lon, tagsXML(n.Tags))
		case 'w':
			w := d.ways[e.idx]
			fmt.Fprintf(&b, " <way id=\"%d\" version=\"1\">", w.ID)
			for _, n := range w.Nodes {
				fmt.Fprintf(&b, `<nd ref="%d"/>`, n)
			}
			b.WriteString(tagsXML(w.Tags) + "</way>\n")
		case 'r':
			r := d.rels[e.idx]
			fmt.Fprintf(&b, " <relation id=\"%d\" version=\"1\">", r.ID)
			for _, m := range r.Members {
				ty := map[byte]string{'n': "node", 'w': "way", 'r': "relation"}[m.Type]
				fmt.Fprintf(&b, `<member type=%q ref="%d" role=""/>`, ty, m.Ref)
			}
			b.WriteString(tagsXML(r.Tags) + "</relation>\n")
		}
	}
	b.WriteString("</osm>\n")
	return b.Bytes()
}

func randTags(r *gen.R, p float64) []tag {
	var ts []tag
	if r.Chance(p) {
		ts = append(ts, tag{"k", []string{"v", "v", "other", "v", "v", "other", ""}[r.Intn(7)]})
	}
	if r.Chance(0.3) {
		ts = append(ts, tag{"name", "x"})
	}
	return ts
}

func genDoc(c *core.Ctx, r *gen.R) *doc {
	// coordinates are multiples of the PBF unit (1e-7 degree) in the value a PBF reader
	// reconstructs, so that the XML and the PBF spelling of a document carry identical floats
	d := &doc{box: geom.Bounds{Min: geom.Point{X: normCoord(10), Y: normCoord(20)}, Max: geom.Point{X: normCoord(11), Y: normCoord(21)}}}
	// id scheme: disjoint ranges per type, or every type numbered from 1 (as in real OSM data
	// node 5, way 5 and relation 5 are different objects)
	wayBase, cascBase, relBase := int64(100), int64(150), int64(200)
	if r.Bool() {
		wayBase, cascBase, relBase = 1, 30, 1
		c.Count("doc.ids_overlap_across_types")
	}
	nn := r.IntRange(2, 30)
	tiny := r.Chance(0.25)
	if tiny {
		// very small documents (2-6 nodes, 1-2 ways, at most one relation): one racing pair is
		// then the only thing that happens in a pass, so nothing else can mask a lost update
		nn = r.IntRange(2, 6)
		c.Count("doc.tiny")
	}
	for i := 0; i < nn; i++ {
		n := dnode{ID: int64(1 + i), Tags: randTags(r, 0.15)}
		switch r.Intn(5) {
		case 0, 1: // inside
			n.Lon, n.Lat = r.Range(10.05, 10.95), r.Range(20.05, 20.95)
		case 2: // on the edge
			n.Lon, n.Lat = 11, r.Range(20, 21)
		default: // outside
			n.Lon, n.Lat = r.Range(11.5, 13), r.Range(18, 23)
		}
		n.Lon, n.Lat = normCoord(n.Lon), normCoord(n.Lat)
		d.nodes = append(d.nodes, n)
	}
	nw := r.IntRange(0, 15)
	cascade := r.Chance(0.45)
	if tiny {
		nw, cascade = r.IntRange(1, 2), false
	}
	var cascadeWays []int
	if cascade {
		// a chain that KeepBounds must follow outwards: way A straddles the box (one node
		// inside, one outside), B1 lies outside and shares A's outside node, B2 shares B1's …;
		// each link of the chain is only selected once the previous one's outside node is stored
		c.Count("doc.cascade")
		base := int64(len(d.nodes))
		in := dnode{ID: base + 1, Lon: normCoord(r.Range(10.05, 10.95)), Lat: normCoord(r.Range(20.05, 20.95))}
		d.nodes = append(d.nodes, in)
		k := r.IntRange(2, 5)
		prev := in.ID
		for j := 0; j < k; j++ {
			out := dnode{ID: base + 2 + int64(j), Lon: normCoord(r.Range(11.5, 13)), Lat: normCoord(r.Range(18, 23))}
			d.nodes = append(d.nodes, out)
			w := dway{ID: cascBase + int64(j), Nodes: []int64{prev, out.ID}}
			if r.Chance(0.3) {
				w.Nodes = append(w.Nodes, out.ID+1000*0) // harmless repeat
			}
			cascadeWays = append(cascadeWays, len(d.ways))
			d.ways = append(d.ways, w)
			prev = out.ID
		}
		nn = len(d.nodes)
	}
	for i := 0; i < nw; i++ {
		w := dway{ID: wayBase + int64(i), Tags: randTags(r, 0.25)}
		nk := r.IntRange(2, 6)
		if r.Chance(0.1) {
			nk = 0 // a way without nodes (it exists in real extracts): it can only be kept as a member
			c.Count("doc.way_without_nodes")
		}
		for k := nk; k > 0; k-- {
			w.Nodes = append(w.Nodes, d.nodes[r.Intn(nn)].ID)
		}
		d.ways = append(d.ways, w)
	}
	nr := r.IntRange(0, 8)
	if tiny {
		nr = r.Intn(2)
	}
	cycle := false
	for i := 0; i < nr; i++ {
		rel := drel{ID: relBase + int64(i), Tags: randTags(r, 0.3)}
		nm := r.IntRange(1, 5)
		if r.Chance(0.1) {
			nm = 0 // a relation without members
			c.Count("doc.relation_without_members")
		}
		for k := nm; k > 0; k-- {
			switch r.Intn(4) {
			case 0:
				rel.Members = append(rel.Members, member{'n', d.nodes[r.Intn(nn)].ID})
			case 1, 2:
				if len(d.ways) > 0 {
					rel.Members = append(rel.Members, member{'w', d.ways[r.Intn(len(d.ways))].ID})
				}
			default:
				ref := relBase + int64(r.Intn(nr)) // any relation, also later ones and itself: chains and cycles
				if ref <= rel.ID {
					cycle = true
				}
				rel.Members = append(rel.Members, member{'r', ref})
			}
		}
		d.rels = append(d.rels, rel)
	}
	if cycle {
		c.Count("doc.relation_cycle")
	}
	if r.Chance(0.15) && nr+3 < 90 {
		// a member without referents of its own (an empty way or relation) shared by two
		// relations: the first also has a node inside the box, the second has only the shared
		// member - under KeepBounds it becomes selected the moment that member is stored by need
		var in *dnode
		for i := range d.nodes {
			if d.nodes[i].Lon > 10 && d.nodes[i].Lon < 11 && d.nodes[i].Lat > 20 && d.nodes[i].Lat < 21 {
				in = &d.nodes[i]
				break
			}
		}
		if in != nil {
			shared := member{'r', relBase + int64(nr)}
			if r.Bool() {
				shared = member{'w', wayBase + int64(nw)}
				d.ways = append(d.ways, dway{ID: shared.Ref})
			} else {
				d.rels = append(d.rels, drel{ID: shared.Ref})
			}
			p1 := drel{ID: relBase + int64(nr) + 1, Members: []member{{'n', in.ID}, shared}}
			p2 := drel{ID: relBase + int64(nr) + 2, Members: []member{shared}}
			if r.Bool() {
				p1.Members[0], p1.Members[1] = p1.Members[1], p1.Members[0]
			}
			if r.Bool() {
				d.rels = append(d.rels, p2, p1)
			} else {
				d.rels = append(d.rels, p1, p2)
			}
			c.Count("doc.empty_member_shared_by_two_relations")
		}
	}
	if r.Chance(0.06) {
		// a dangling reference
		c.Count("doc.dangling")
		if nw > 0 && r.Bool() {
			wi := len(d.ways) - 1 - r.Intn(nw) // one of the random ways, not the cascade
			if len(d.ways[wi].Nodes) == 0 {
				d.ways[wi].Nodes = []int64{9999}
			} else {
				d.ways[wi].Nodes = append(d.ways[wi].Nodes[:1], 9999)
			}
		} else if nr > 0 {
			d.rels[r.Intn(nr)].Members = append(d.rels[r.Intn(nr)].Members, member{'w', 9998})
		} else {
			d.rels = append(d.rels, drel{ID: 299, Members: []member{{'n', 9997}}, Tags: []tag{{"k", "v"}}})
		}
	}
	// id values: as generated (small positive), negated (editors number new objects -1, -2, ..
	// independently per type), or beyond 2^40 / 2^53 (ids are 64-bit)
	if idMode := r.Intn(5); idMode >= 3 {
		var f func(id int64) int64
		if idMode == 3 {
			f = func(id int64) int64 { return -id }
			c.Count("doc.negative_ids")
		} else {
			base := []int64{1 << 40, 1<<40 - 3, 1 << 53, 1<<62 - 5000}[r.Intn(4)]
			f = func(id int64) int64 { return base + id }
			c.Count("doc.ids_beyond_2^40")
		}
		for i := range d.nodes {
			d.nodes[i].ID = f(d.nodes[i].ID)
		}
		for i := range d.ways {
			d.ways[i].ID = f(d.ways[i].ID)
			for k := range d.ways[i].Nodes {
				d.ways[i].Nodes[k] = f(d.ways[i].Nodes[k])
			}
		}
		for i := range d.rels {
			d.rels[i].ID = f(d.rels[i].ID)
			for k := range d.rels[i].Members {
				d.rels[i].Members[k].Ref = f(d.rels[i].Members[k].Ref)
			}
		}
	}
	for i := range d.nodes {
		d.order = append(d.order, elem{'n', i})
	}
	for i := range d.ways {
		d.order = append(d.order, elem{'w', i})
	}
	for i := range d.rels {
		d.order = append(d.order, elem{'r', i})
	}
	ord := r.Intn(5)
	if cascade && r.Chance(0.4) {
		ord = 5
	}
	switch ord {
	case 5:
		// the chain in reverse dependency order around the nodes: later links first, then
		// all nodes, then the straddling way (each pass can only extend the chain by one link)
		d.desc = "reverse_cascade"
		var o []elem
		first := cascadeWays[0]
		for i := len(cascadeWays) - 1; i >= 1; i-- {
			o = append(o, elem{'w', cascadeWays[i]})
		}
		for _, e := range d.order {
			if e.kind == 'n' {
				o = append(o, e)
			}
		}
		o = append(o, elem{'w', first})
		for _, e := range d.order {
			if e.kind == 'r' {
				o = append(o, e)
			}
			if e.kind == 'w' {
				isC := false
				for _, cw := range cascadeWays {
					if cw == e.idx {
						isC = true
					}
				}
				if !isC {
					o = append(o, e)
				}
			}
		}
		d.order = o
	case 0, 1:
		d.desc = "canonical"
	case 2, 3:
		d.desc = "shuffled"
		p := r.Perm(len(d.order))
		o := make([]elem, len(d.order))
		for i, j := range p {
			o[i] = d.order[j]
		}
		d.order = o
	default:
		d.desc = "ways_first"
		var o []elem
		for _, k := range []byte{'r', 'w', 'n'} {
			for _, e := range d.order {
				if e.kind == k {
					o = append(o, e)
				}
			}
		}
		d.order = o
	}
	c.Count("order." + d.desc)
	return d
}

// sets is a result: ids of nodes, ways, relations.
type sets struct{ n, w, r map[int64]bool }

func newSets() *sets { return &sets{map[int64]bool{}, map[int64]bool{}, map[int64]bool{}} }

func (s *sets) String() string {
	f := func(m map[int64]bool) []int64 {
		var o []int64
		for k := range m {
			o = append(o, k)
		}
		sort.Slice(o, func(i, j int) bool { return o[i] < o[j] })
		return o
	}
	return fmt.Sprintf("nodes%v ways%v relations%v", f(s.n), f(s.w), f(s.r))
}

func (s *sets) equal(o *sets) bool {
	eq := func(a, b map[int64]bool) bool {
		if len(a) != len(b) {
			return false
		}
		for k := range a {
			if !b[k] {
				return false
			}
		}
		return true
	}
	return eq(s.n, o.n) && eq(s.w, o.w) && eq(s.r, o.r)
}

func hasTag(ts []tag, key string, vals []string) bool {
	for _, t := range ts {
		if t.K != key {
			continue
		}
		if len(vals) == 0 {
			return true
		}
		for _, v := range vals {
			if t.V == v {
				return true
			}
		}
	}
	return false
}

type keepSpec struct {
	kind string // tags | bounds | all
	vals []string
}

// model computes the least fixpoint for the document restricted to the objects in universe (nil = all).
func model(d *doc, k keepSpec, universe *sets) (*sets, bool) {
	s := newSets()
	nodeByID, wayByID, relByID := map[int64]*dnode{}, map[int64]*dway{}, map[int64]*drel{}
	for i := range d.nodes {
		if universe == nil || universe.n[d.nodes[i].ID] {
			nodeByID[d.nodes[i].ID] = &d.nodes[i]
		}
	}
	for i := range d.ways {
		if universe == nil || universe.w[d.ways[i].ID] {
			wayByID[d.ways[i].ID] = &d.ways[i]
		}
	}
	for i := range d.rels {
		if universe == nil || universe.r[d.rels[i].ID] {
			relByID[d.rels[i].ID] = &d.rels[i]
		}
	}
	needN, needW, needR := map[int64]bool{}, map[int64]bool{}, map[int64]bool{}
	keepN := func(n *dnode) bool {
		switch k.kind {
		case "tags":
			return hasTag(n.Tags, "k", k.vals)
		case "bounds":
			return n.Lon >= d.box.Min.X && n.Lon <= d.box.Max.X && n.Lat >= d.box.Min.Y && n.Lat <= d.box.Max.Y
		}
		return true
	}
	keepW := func(w *dway) bool {
		switch k.kind {
		case "tags":
			return hasTag(w.Tags, "k", k.vals)
		case "bounds":
			for _, n := range w.Nodes {
				if s.n[n] {
					return true
				}
			}
			return false
		}
		return true
	}
	keepR := func(rl *drel) bool {
		switch k.kind {
		case "tags":
			return hasTag(rl.Tags, "k", k.vals)
		case "bounds":
			for _, m := range rl.Members {
				if (m.Type == 'n' && s.n[m.Ref]) || (m.Type == 'w' && s.w[m.Ref]) || (m.Type == 'r' && s.r[m.Ref]) {
					return true
				}
			}
			return false
		}
		return true
	}
	dangling := false
	for changed := true; changed; {
		changed = false
		for id, n := range nodeByID {
			if !s.n[id] && (keepN(n) || needN[id]) {
				s.n[id] = true
				changed = true
			}
		}
		for id, w := range wayByID {
			if !s.w[id] && (keepW(w) || needW[id]) {
				s.w[id] = true
				changed = true
				for _, n := range w.Nodes {
					needN[n] = true
				}
			}
		}
		for id, rl := range relByID {
			if !s.r[id] && (keepR(rl) || needR[id]) {
				s.r[id] = true
				changed = true
				for _, m := range rl.Members {
					switch m.Type {
					case 'n':
						needN[m.Ref] = true
					case 'w':
						needW[m.Ref] = true
					case 'r':
						needR[m.Ref] = true
					}
				}
			}
		}
	}
	// dangling references among the selected objects
	for id := range s.w {
		for _, n := range wayByID[id].Nodes {
			if nodeByID[n] == nil {
				dangling = true
			}
		}
	}
	for id := range s.r {
		for _, m := range relByID[id].Members {
			if (m.Type == 'n' && nodeByID[m.Ref] == nil) || (m.Type == 'w' && wayByID[m.Ref] == nil) || (m.Type == 'r' && relByID[m.Ref] == nil) {
				dangling = true
			}
		}
	}
	return s, dangling
}

func (k keepSpec) fn(d *doc) gosm.KeepFunc {
	switch k.kind {
	case "tags":
		return gosm.KeepTags(map[string][]string{"k": k.vals})
	case "bounds":
		b := d.box
		return gosm.KeepBounds(&b)
	}
	return gosm.KeepAll()
}

func dataSets(d *gosm.Data) *sets {
	s := newSets()
	for id := range d.Nodes {
		s.n[int64(id)] = true
	}
	for id := range d.Ways {
		s.w[int64(id)] = true
	}
	for id := range d.Relations {
		s.r[int64(id)] = true
	}
	return s
}

// ---------------------------------------------------------------------------
// hook controller

type event struct {
	ev   string
	kind byte
	id   int64
}

type rule struct {
	holdKind, awaitKind byte
	holdID, awaitID     int64
	// handshake: after the dependent object has been judged (its judge.end point, i.e. with the
	// keep verdict in hand but before its worker has returned to the dispatch loop) it is itself
	// held until the referent's worker has finished storing and is returning (the referent's
	// judge.end point), plus a few hundred microseconds. The stretch between "verdict" and
	// "back in the loop" of one worker then overlaps the whole store of the other.
	handshake bool
}

type controller struct {
	mu               sync.Mutex
	trace            []event
	rule             *rule
	released         chan struct{}
	holderDone       chan struct{} // closed at the held referent's judge.end (handshake rules)
	holderDoneClosed bool
	fired            bool // the hold was applied
	awaited          bool // awaited event seen
	timedOut         bool
	perturb          bool
	seed             uint64
	cnt              uint64
}

func (ct *controller) hook(ev string, kind byte, id int64) {
	ct.mu.Lock()
	ct.trace = append(ct.trace, event{ev, kind, id})
	var wait, wait2 chan struct{}
	if rl := ct.rule; rl != nil {
		if rl.handshake && ev == "judge.end" && kind == rl.holdKind && id == rl.holdID && ct.fired && !ct.holderDoneClosed {
			ct.holderDoneClosed = true
			close(ct.holderDone)
		}
		if ev == "judge.end" && kind == rl.awaitKind && id == rl.awaitID && !ct.awaited {
			ct.awaited = true
			close(ct.released)
			if rl.handshake && ct.fired {
				wait2 = ct.holderDone
			}
		}
		if ev == "store.before" && kind == rl.holdKind && id == rl.holdID && !ct.fired && !ct.awaited {
			ct.fired = true
			wait = ct.released
		}
	}
	ct.mu.Unlock()
	if wait2 != nil {
		select {
		case <-wait2:
			time.Sleep(300 * time.Microsecond)
		case <-time.After(2 * time.Second):
			ct.mu.Lock()
			ct.timedOut = true
			ct.mu.Unlock()
		}
	}
	if wait != nil {
		select {
		case <-wait:
		case <-time.After(2 * time.Second):
			ct.mu.Lock()
			ct.timedOut = true
			ct.mu.Unlock()
		}
	}
	if ct.perturb {
		x := atomic.AddUint64(&ct.cnt, 1)*0x9e3779b97f4a7c15 ^ ct.seed
		x ^= x >> 29
		switch x % 7 {
		case 0, 1:
			runtime.Gosched()
		case 2:
			time.Sleep(time.Duration(1+x%20) * time.Microsecond)
		}
	}
}

// windowObserved reports whether some way/relation was judged while one of
// its referents was between its own judgement and storage.
func windowObserved(tr []event, d *doc) bool {
	refs := map[[2]int64][][2]int64{} // (kind,id) -> referents
	for _, w := range d.ways {
		for _, n := range w.Nodes {
			refs[[2]int64{'w', w.ID}] = append(refs[[2]int64{'w', w.ID}], [2]int64{'n', n})
		}
	}
	for _, r := range d.rels {
		for _, m := range r.Members {
			refs[[2]int64{'r', r.ID}] = append(refs[[2]int64{'r', r.ID}], [2]int64{int64(m.Type), m.Ref})
		}
	}
	storing := map[[2]int64]bool{}
	judging := map[[2]int64]bool{}
	for _, e := range tr {
		k := [2]int64{int64(e.kind), e.id}
		switch e.ev {
		case "store.before":
			storing[k] = true
			// any object currently being judged that refers to k?
			for j := range judging {
				for _, rf := range refs[j] {
					if rf == k {
						return true
					}
				}
			}
		case "store.after":
			delete(storing, k)
		case "judge.begin":
			judging[k] = true
			for _, rf := range refs[k] {
				if storing[rf] {
					return true
				}
			}
		case "judge.end":
			delete(judging, k)
		}
	}
	return false
}

func traceHash(tr []event) uint64 {
	h := core.NewHasher()
	for _, e := range tr {
		h.Str(e.ev).Int(int(e.kind)).U64(uint64(e.id))
	}
	return h.Sum()
}

// candidate forced windows for a document.
func rules(d *doc, r *gen.R) []rule {
	pos := map[[2]int64]int{}
	for i, e := range d.order {
		switch e.kind {
		case 'n':
			pos[[2]int64{'n', d.nodes[e.idx].ID}] = i
		case 'w':
			pos[[2]int64{'w', d.ways[e.idx].ID}] = i
		case 'r':
			pos[[2]int64{'r', d.rels[e.idx].ID}] = i
		}
	}
	var out []rule
	for _, w := range d.ways {
		for _, n := range w.Nodes {
			pn, ok := pos[[2]int64{'n', n}]
			if ok && pn < pos[[2]int64{'w', w.ID}] {
				out = append(out, rule{holdKind: 'n', awaitKind: 'w', holdID: n, awaitID: w.ID})
			}
		}
	}
	for _, rl := range d.rels {
		for _, m := range rl.Members {
			pm, ok := pos[[2]int64{int64(m.Type), m.Ref}]
			if ok && pm < pos[[2]int64{'r', rl.ID}] {
				out = append(out, rule{holdKind: m.Type, awaitKind: 'r', holdID: m.Ref, awaitID: rl.ID})
			}
		}
	}
	// up to two rules whose held object lies outside the box (it can only be stored as a
	// dependency, i.e. in a later pass, where fewer other stores ask for another pass), then
	// random ones, at most four in all
	inBox := map[int64]bool{}
	for _, n := range d.nodes {
		if n.Lon >= d.box.Min.X && n.Lon <= d.box.Max.X && n.Lat >= d.box.Min.Y && n.Lat <= d.box.Max.Y {
			inBox[n.ID] = true
		}
	}
	var sel []rule
	p := r.Perm(len(out))
	for _, i := range p {
		if out[i].holdKind == 'n' && !inBox[out[i].holdID] && len(sel) < 2 {
			sel = append(sel, out[i])
		}
	}
	for _, i := range p {
		if len(sel) >= 4 {
			break
		}
		dup := false
		for _, s := range sel {
			if s == out[i] {
				dup = true
			}
		}
		if !dup {
			sel = append(sel, out[i])
		}
	}
	return sel
}

type schedule struct {
	pbf   bool
	procs int
	mode  string // free | perturbed | forced
	rule  *rule
	seed  uint64
}

func run(c *core.Ctx, idx int) {
	if c.Phase == "pbf" {
		runPBF(c, idx)
		return
	}
	r := c.R
	d := genDoc(c, r)
	xmlBytes := d.xml()
	keeps := []keepSpec{{"tags", []string{"v"}}, {"bounds", nil}, {"all", nil}}
	switch r.Intn(8) {
	case 0, 1, 2:
		keeps[0].vals = nil // key only
	case 3:
		keeps[0].vals = []string{""} // the empty value, exactly
		c.Count("keep.tags.empty_string_among_wanted_values")
	case 4:
		keeps[0].vals = []string{"", "v"}
		c.Count("keep.tags.empty_string_among_wanted_values")
	case 5:
		keeps[0].vals = []string{"other", "v", "v"}
	}
	race := c.Phase == "race"
	if !race && r.Chance(0.08) {
		rejectedElement(c, d, xmlBytes)
	}
	for _, k := range keeps {
		c.Count("keep." + k.kind)
		want, dangling := model(d, k, nil)
		var scheds []schedule
		for _, p := range []int{1, 2, 4, 16} {
			scheds = append(scheds, schedule{procs: p, mode: "free"})
		}
		scheds = append(scheds, schedule{procs: 4, mode: "perturbed", seed: r.Uint64()}, schedule{procs: 2, mode: "perturbed", seed: r.Uint64()}, schedule{procs: 16, mode: "perturbed", seed: r.Uint64()})
		for _, rl := range rules(d, r) {
			rl := rl
			scheds = append(scheds, schedule{procs: 2, mode: "forced", rule: &rl}, schedule{procs: 4, mode: "forced", rule: &rl})
			hs := rl
			hs.handshake = true
			scheds = append(scheds, schedule{procs: 2, mode: "forced", rule: &hs})
		}
		if race {
			scheds = scheds[1:] // GOMAXPROCS 1 cannot race
		}
		var first *sets
		// the same document as PBF: a reduced schedule set
		pbfBytes := d.pbf()
		nXML := len(scheds)
		if !race {
			scheds = append(scheds, schedule{procs: 1, mode: "free", pbf: true}, schedule{procs: 4, mode: "free", pbf: true}, schedule{procs: 4, mode: "perturbed", seed: r.Uint64(), pbf: true})
			if rs := rules(d, r); len(rs) > 0 {
				rl := rs[0]
				scheds = append(scheds, schedule{procs: 2, mode: "forced", rule: &rl, pbf: true})
			}
		}
		_ = nXML
		// one reader per format shared by the runs below: a caller may hand over a reader that is
		// not positioned at its start (the same file used for a second extraction, or read by
		// something else before); the document is the whole of it all the same
		xmlRd, pbfRd := bytes.NewReader(xmlBytes), bytes.NewReader(pbfBytes)
		for _, sc := range scheds {
			c.Eval()
			if sc.pbf {
				c.Count("format.pbf")
			} else {
				c.Count("format.xml")
			}
			c.Count("runs." + sc.mode)
			c.Count(fmt.Sprintf("gomaxprocs.%d", sc.procs))
			ct := &controller{rule: sc.rule, released: make(chan struct{}), holderDone: make(chan struct{}), perturb: sc.mode == "perturbed", seed: sc.seed}
			gosm.SetVerifHook(ct.hook)
			prev := runtime.GOMAXPROCS(sc.procs)
			var data *gosm.Data
			var err error
			detail := map[string]interface{}{"document": string(xmlBytes), "keep": k.kind, "keep_values": k.vals, "element_order": d.desc, "gomaxprocs": sc.procs, "schedule": sc.mode, "model": want.String()}
			if sc.rule != nil {
				detail["forced_window"] = fmt.Sprintf("hold store of %c%d until %c%d has been judged", sc.rule.holdKind, sc.rule.holdID, sc.rule.awaitKind, sc.rule.awaitID)
				if sc.rule.handshake {
					detail["forced_window"] = detail["forced_window"].(string) + fmt.Sprintf(", then hold %c%d at the end of its judgement until the worker storing %c%d is returning", sc.rule.awaitKind, sc.rule.awaitID, sc.rule.holdKind, sc.rule.holdID)
					c.Count("window.handshake_runs")
				}
			}
			if sc.pbf {
				detail["format"] = "pbf (same document, one block per run of same-kind elements)"
			}
			rd := xmlRd
			if sc.pbf {
				rd = pbfRd
			}
			switch c.R.Intn(3) {
			case 0:
				rd.Seek(0, io.SeekStart)
			case 1:
				// wherever the previous run left it (the end, as a rule)
			default:
				rd.Seek(int64(c.R.Intn(int(rd.Size())+1)), io.SeekStart)
			}
			if pos, _ := rd.Seek(0, io.SeekCurrent); pos != 0 {
				c.Count("reader.not_at_its_start_when_handed_over")
				detail["reader"] = fmt.Sprintf("positioned at offset %d of %d when handed over", pos, rd.Size())
			}
			panicked := c.Guard("Extract", detail, func() {
				if sc.pbf {
					data, err = gosm.ExtractPBF(context.Background(), rd, k.fn(d), true)
				} else {
					data, err = gosm.ExtractXML(context.Background(), rd, k.fn(d), true)
				}
			})
			runtime.GOMAXPROCS(prev)
			gosm.SetVerifHook(nil)
			if panicked {
				continue
			}
			if err != nil {
				c.Violate("extract-error", fmt.Sprintf("extraction failed: %v", err), detail)
				continue
			}
			ct.mu.Lock()
			tr := append([]event(nil), ct.trace...)
			forcedOK := ct.fired && ct.awaited && !ct.timedOut
			timedOut := ct.timedOut
			ct.mu.Unlock()
			if timedOut {
				c.Count("window.safety_release_fired")
			}
			if sc.mode == "forced" {
				if forcedOK {
					c.Count("window.forced_observed")
				} else {
					c.Count("window.not_forced")
				}
			}
			if windowObserved(tr, d) {
				c.Count("window.observed_on_trace")
				c.Nontrivial(traceHash(tr))
			}
			c.Max("hook_events_per_run", float64(len(tr)))
			got := dataSets(data)
			detail["result"] = got.String()
			if c.WantSample() && sc.mode == "forced" && forcedOK {
				c.Sample(map[string]interface{}{"document": string(xmlBytes), "keep": k.kind, "forced_window": detail["forced_window"], "gomaxprocs": sc.procs, "hook_events": len(tr), "result": got.String()})
			}
			if !got.equal(want) {
				lostOrExtra := "differs"
				if len(got.n) <= len(want.n) && len(got.w) <= len(want.w) && len(got.r) <= len(want.r) {
					lostOrExtra = "lost"
				} else if len(got.n) >= len(want.n) && len(got.w) >= len(want.w) && len(got.r) >= len(want.r) {
					lostOrExtra = "extra"
				}
				c.Violate(fmt.Sprintf("result-%s:%s:%s:%s", lostOrExtra, k.kind, d.desc, sc.mode), fmt.Sprintf("Keep%s, %s order, GOMAXPROCS %d, %s: extraction returned %s, the least closed set is %s", k.kind, d.desc, sc.procs, sc.mode, got.String(), want.String()), detail)
				continue
			}
			if first == nil {
				first = got
			} else if !first.equal(got) {
				c.Violate("schedule-dependent:"+k.kind, "two runs of the same document returned different sets", detail)
			}
			// Check()
			cerr := data.Check()
			if !dangling && cerr != nil {
				c.Violate("check-fails:"+k.kind, fmt.Sprintf("Check() = %v although the document has no dangling reference among the selected objects", cerr), detail)
			}
			if dangling && cerr == nil {
				c.Violate("check-misses-dangling:"+k.kind, "Check() = nil although a selected object references an object that is not in the document", detail)
			}
			// Filter laws on this result
			if sc.mode == "free" && sc.procs == 4 {
				filterLaws(c, d, data, got, detail)
			}
		}
	}
}

// rejectedElement puts an element the extractor does not accept (a changeset) into the document and
// extracts with one and with four workers: whatever the outcome is (an error), it must arrive, and
// be of the same kind for both settings. "Arrives" is bounded progress: 30 s for a document of at
// most 80 elements whose extraction takes well under a millisecond.
func rejectedElement(c *core.Ctx, d *doc, xmlBytes []byte) {
	i := bytes.Index(xmlBytes, []byte("<osm"))
	if i < 0 {
		return
	}
	j := bytes.IndexByte(xmlBytes[i:], '>')
	if j < 0 || xmlBytes[i+j-1] == '/' {
		return
	}
	at := i + j + 1
	if c.R.Bool() {
		// or just before the closing tag
		if k := bytes.LastIndex(xmlBytes, []byte("</osm>")); k > at {
			at = k
		}
	}
	docBytes := append(append(append([]byte{}, xmlBytes[:at]...), []byte(`<changeset id="1"/>`)...), xmlBytes[at:]...)
	c.Count("doc.with_a_rejected_element")
	type outcome struct {
		returned bool
		failed   bool
	}
	var outs [2]outcome
	for n, procs := range []int{1, 4} {
		c.Eval()
		detail := map[string]interface{}{"document": string(docBytes), "keep": "all", "gomaxprocs": procs}
		done := make(chan error, 1)
		prev := runtime.GOMAXPROCS(procs)
		go func() {
			defer func() {
				if rec := recover(); rec != nil {
					done <- fmt.Errorf("panic: %v", rec)
				}
			}()
			_, err := gosm.ExtractXML(context.Background(), bytes.NewReader(docBytes), gosm.KeepAll(), true)
			done <- err
		}()
		select {
		case err := <-done:
			outs[n] = outcome{returned: true, failed: err != nil}
		case <-time.After(30 * time.Second):
			c.Violate(fmt.Sprintf("rejected-element:no-return:gomaxprocs=%d", procs), fmt.Sprintf("ExtractXML of a document containing a <changeset> element did not return within 30 s at GOMAXPROCS=%d", procs), detail)
		}
		runtime.GOMAXPROCS(prev)
	}
	if outs[0].returned && outs[1].returned && outs[0].failed != outs[1].failed {
		c.Violate("rejected-element:outcome-depends-on-gomaxprocs", fmt.Sprintf("a document containing a <changeset> element: error = %v with one worker, %v with four", outs[0].failed, outs[1].failed), map[string]interface{}{"document": string(docBytes)})
	}
}

func filterLaws(c *core.Ctx, d *doc, data *gosm.Data, in *sets, detail map[string]interface{}) {
	for _, fk := range []keepSpec{{"tags", []string{"v"}}, {"tags", nil}, {"tags", []string{""}}, {"all", nil}} {
		c.Eval()
		c.Count("filter.checked")
		want, dangling := model(d, fk, in)
		var f, ff *gosm.Data
		det := map[string]interface{}{"filter": fk.kind, "filter_values": fk.vals, "input": in.String(), "model": want.String()}
		for k, v := range detail {
			if k == "document" {
				det[k] = v
			}
		}
		if c.Guard("Filter", det, func() { f = data.Filter(fk.fn(d)); ff = f.Filter(fk.fn(d)) }) {
			continue
		}
		got := dataSets(f)
		det["result"] = got.String()
		if !got.equal(want) {
			c.Violate("filter-result:"+fk.kind, fmt.Sprintf("Filter(Keep%s) returned %s, the least closed subset of its input is %s", fk.kind, got.String(), want.String()), det)
			continue
		}
		for id := range got.n {
			if !in.n[id] {
				c.Violate("filter-superset", "Filter returned a node it was not given", det)
			}
		}
		if !dataSets(ff).equal(got) {
			c.Violate("filter-not-idempotent:"+fk.kind, "Filter applied twice differs from Filter applied once", det)
		}
		if err := f.Check(); err != nil && !dangling && data.Check() == nil {
			c.Violate("filter-not-closed:"+fk.kind, fmt.Sprintf("Check() of the filtered data = %v", err), det)
		}
	}
}

// ---------------------------------------------------------------------------
// bundled Honolulu PBF (thorough tier)

func repoDir() string {
	if d := os.Getenv("VERIF_REPO"); d != "" {
		return d
	}
	return "/repo"
}

func runPBF(c *core.Ctx, idx int) {
	path := filepath.Join(repoDir(), "encoding", "osm", "testdata", "honolulu_hawaii.osm.pbf")
	raw, err := os.ReadFile(path)
	if err != nil {
		c.Count("pbf.file_missing")
		return
	}
	// the document, read by a direct scan in the harness
	d := &doc{box: geom.Bounds{Min: geom.Point{X: -157.83, Y: 21.40}, Max: geom.Point{X: -157.82, Y: 21.41}}}
	sc := osmpbf.New(context.Background(), bytes.NewReader(raw), 1)
	conv := func(ts osm.Tags) []tag {
		var o []tag
		for _, t := range ts {
			o = append(o, tag{t.Key, t.Value})
		}
		return o
	}
	for sc.Scan() {
		switch o := sc.Object().(type) {
		case *osm.Node:
			d.nodes = append(d.nodes, dnode{ID: int64(o.ID), Lat: o.Lat, Lon: o.Lon, Tags: conv(o.Tags)})
		case *osm.Way:
			w := dway{ID: int64(o.ID), Tags: conv(o.Tags)}
			for _, n := range o.Nodes {
				w.Nodes = append(w.Nodes, int64(n.ID))
			}
			d.ways = append(d.ways, w)
		case *osm.Relation:
			rl := drel{ID: int64(o.ID), Tags: conv(o.Tags)}
			for _, m := range o.Members {
				ty := map[osm.Type]byte{osm.TypeNode: 'n', osm.TypeWay: 'w', osm.TypeRelation: 'r'}[m.Type]
				rl.Members = append(rl.Members, member{ty, m.Ref})
			}
			d.rels = append(d.rels, rl)
		}
	}
	sc.Close()
	type job struct {
		k     keepSpec
		fn    gosm.KeepFunc
		procs int
	}
	jobs := []job{}
	for _, p := range []int{1, 4} {
		jobs = append(jobs, job{keepSpec{"pbftag", nil}, gosm.KeepTags(map[string][]string{"natural": {"tree"}}), p})
		jobs = append(jobs, job{keepSpec{"pbftag2", nil}, gosm.KeepTags(map[string][]string{"trail_visibility": nil}), p})
		b := d.box
		jobs = append(jobs, job{keepSpec{"bounds", nil}, gosm.KeepBounds(&b), p})
		jobs = append(jobs, job{keepSpec{"all", nil}, gosm.KeepAll(), p})
	}
	j := jobs[idx%len(jobs)]
	// model: reuse the generic one by mapping the tag filters onto the "k" convention
	dd := d
	if strings.HasPrefix(j.k.kind, "pbftag") {
		key, vals := "natural", []string{"tree"}
		if j.k.kind == "pbftag2" {
			key, vals = "trail_visibility", nil
		}
		cp := *d
		cp.nodes = append([]dnode(nil), d.nodes...)
		cp.ways = append([]dway(nil), d.ways...)
		cp.rels = append([]drel(nil), d.rels...)
		mark := func(ts []tag) []tag {
			if hasTag(ts, key, vals) {
				return []tag{{"k", "v"}}
			}
			return nil
		}
		for i := range cp.nodes {
			cp.nodes[i].Tags = mark(cp.nodes[i].Tags)
		}
		for i := range cp.ways {
			cp.ways[i].Tags = mark(cp.ways[i].Tags)
		}
		for i := range cp.rels {
			cp.rels[i].Tags = mark(cp.rels[i].Tags)
		}
		dd = &cp
		j.k = keepSpec{"tags", []string{"v"}}
	}
	want, dangling := model(dd, j.k, nil)
	c.Eval()
	c.Count("pbf.runs")
	prev := runtime.GOMAXPROCS(j.procs)
	defer runtime.GOMAXPROCS(prev)
	detail := map[string]interface{}{"file": "honolulu_hawaii.osm.pbf", "keep": j.k.kind, "gomaxprocs": j.procs, "model_sizes": []int{len(want.n), len(want.w), len(want.r)}}
	var data *gosm.Data
	if c.Guard("ExtractPBF", detail, func() { data, err = gosm.ExtractPBF(context.Background(), bytes.NewReader(raw), j.fn, false) }) {
		return
	}
	if err != nil {
		c.Violate("pbf-error", fmt.Sprintf("ExtractPBF failed: %v", err), detail)
		return
	}
	got := dataSets(data)
	detail["result_sizes"] = []int{len(got.n), len(got.w), len(got.r)}
	c.Nontrivial(core.NewHasher().Str(j.k.kind).Int(j.procs).Int(idx).Sum())
	c.Sample(detail)
	if !got.equal(want) {
		c.Violate("pbf-result:"+j.k.kind, fmt.Sprintf("Honolulu, Keep%s, GOMAXPROCS %d: %d/%d/%d nodes/ways/relations, the least closed set has %d/%d/%d", j.k.kind, j.procs, len(got.n), len(got.w), len(got.r), len(want.n), len(want.w), len(want.r)), detail)
		return
	}
	if cerr := data.Check(); cerr != nil && !dangling {
		c.Violate("pbf-check", fmt.Sprintf("Check() = %v", cerr), detail)
	}
}
