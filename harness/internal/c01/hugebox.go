package c01

import (
	"fmt"
	"math"

	"github.com/ctessum/geom"

	"verifharness/internal/core"
	"verifharness/internal/gen"
)

// clipHalfPlane keeps the part of the (open) ring with s*(coordinate) >= s*c, by Sutherland-Hodgman.
func clipHalfPlane(ring []geom.Point, xAxis bool, c, s float64) []geom.Point {
	co := func(p geom.Point) float64 {
		if xAxis {
			return s * (p.X - c)
		}
		return s * (p.Y - c)
	}
	var out []geom.Point
	n := len(ring)
	for i := 0; i < n; i++ {
		a, b := ring[i], ring[(i+1)%n]
		ca, cb := co(a), co(b)
		if ca >= 0 {
			out = append(out, a)
		}
		if (ca >= 0) != (cb >= 0) {
			t := ca / (ca - cb)
			q := geom.Point{X: a.X + t*(b.X-a.X), Y: a.Y + t*(b.Y-a.Y)}
			if xAxis {
				q.X = c
			} else {
				q.Y = c
			}
			out = append(out, q)
		}
	}
	return out
}

func shoelace(r []geom.Point) float64 {
	s := 0.0
	for i := range r {
		j := (i + 1) % len(r)
		s += (r[i].X-r[0].X)*(r[j].Y-r[0].Y) - (r[j].X-r[0].X)*(r[i].Y-r[0].Y)
	}
	return math.Abs(s) / 2
}

// runHugeBox is the 'huge_box' phase: an ordinary polygonal A and a box B one to three sides of which
// lie 1e11 .. 1e300 away while its other sides cut through A ("everything east of x = 3"). The far
// sides never meet A, so area(A and B) is the area of A clipped by the near sides (Sutherland-Hodgman
// per ring, shells minus holes), and area(A - B) = area(A) - area(A and B). Every violation of this
// phase is reported under one key: the external clipper forms the crossing of an edge of A with a
// side of B from that side's far end.
func runHugeBox(c *core.Ctx) {
	r := c.R
	scale := math.Pow(10, r.Range(-1, 2))
	ox, oy := r.Range(-5, 5)*scale, r.Range(-5, 5)*scale
	a := GenOperand(r, ox, oy, scale*r.Range(0.5, 1.5), []string{"star", "starholes", "comb", "stair", "multi", "nested"}[r.Intn(6)], 40)
	h := func() float64 { return math.Pow(10, r.Range(11, 300)) }
	b := geom.Bounds{Min: geom.Point{X: a.Cx - a.Out*r.Range(0.05, 0.6), Y: a.Cy - a.Out*r.Range(0.05, 0.6)}, Max: geom.Point{X: a.Cx + a.Out*r.Range(0.05, 0.6), Y: a.Cy + a.Out*r.Range(0.05, 0.6)}}
	near := [4]bool{true, true, true, true} // minX, minY, maxX, maxY
	far := 0
	for far == 0 {
		if r.Chance(0.4) {
			b.Min.X, near[0] = -h(), false
			far++
		}
		if r.Chance(0.4) {
			b.Min.Y, near[1] = -h(), false
			far++
		}
		if r.Chance(0.4) {
			b.Max.X, near[2] = h(), false
			far++
		}
		if r.Chance(0.4) {
			b.Max.Y, near[3] = h(), false
			far++
		}
	}
	// general position: no vertex of A within 1e-6 of its size of a near side
	areaA, areaI := 0.0, 0.0
	for _, pg := range a.Polys {
		for ri, ring := range pg {
			open := []geom.Point(gen.OpenRing(ring))
			for _, p := range open {
				m := 1e-6 * a.Out
				if near[0] && math.Abs(p.X-b.Min.X) < m || near[2] && math.Abs(p.X-b.Max.X) < m || near[1] && math.Abs(p.Y-b.Min.Y) < m || near[3] && math.Abs(p.Y-b.Max.Y) < m {
					c.Count("huge_box.vertex_near_a_side_skipped")
					return
				}
			}
			sign := 1.0
			if ri > 0 {
				sign = -1
			}
			areaA += sign * shoelace(open)
			cl := open
			if near[0] {
				cl = clipHalfPlane(cl, true, b.Min.X, 1)
			}
			if near[2] && len(cl) > 0 {
				cl = clipHalfPlane(cl, true, b.Max.X, -1)
			}
			if near[1] && len(cl) > 0 {
				cl = clipHalfPlane(cl, false, b.Min.Y, 1)
			}
			if near[3] && len(cl) > 0 {
				cl = clipHalfPlane(cl, false, b.Max.Y, -1)
			}
			if len(cl) >= 3 {
				areaI += sign * shoelace(cl)
			}
		}
	}
	c.Eval()
	c.Count("huge_box.cases")
	if areaI > 1e-3*areaA && areaI < (1-1e-3)*areaA {
		c.Count("huge_box.box_cuts_through_A")
	}
	hs := core.NewHasher()
	gen.HashGeom(hs, &b)
	for _, pg := range a.Polys {
		gen.HashGeom(hs, pg)
	}
	c.Nontrivial(hs.Sum())
	var A geom.Polygonal
	if len(a.Polys) == 1 && r.Bool() {
		A = a.Polys[0]
	} else {
		A = geom.MultiPolygon(a.Polys)
	}
	var B geom.Polygonal = &b
	if r.Chance(0.4) {
		B = geom.Polygon{{b.Min, {X: b.Max.X, Y: b.Min.Y}, b.Max, {X: b.Min.X, Y: b.Max.Y}, b.Min}}
		c.Count("huge_box.as_polygon")
	}
	detail := map[string]interface{}{"A": gen.Dump(A.(geom.Geom)), "B": gen.Dump(B.(geom.Geom)), "area_A": areaA, "area_A_and_B": areaI}
	ops := []struct {
		name string
		f    func() geom.Polygonal
		want float64
	}{
		{"A.Intersection(B)", func() geom.Polygonal { return A.Intersection(B) }, areaI},
		{"B.Intersection(A)", func() geom.Polygonal { return B.Intersection(A) }, areaI},
		{"A.Difference(B)", func() geom.Polygonal { return A.Difference(B) }, areaA - areaI},
	}
	op := ops[r.Intn(len(ops))]
	var res geom.Polygonal
	if c.Guard(op.name+" (huge box)", detail, func() { res = op.f() }) {
		return
	}
	got := 0.0
	if res != nil {
		if c.Guard("Area of the result (huge box)", detail, func() { got = res.Area() }) {
			return
		}
	}
	if !(math.Abs(got-op.want) <= 1e-6*areaA) {
		detail["result_area"] = got
		c.Violate("box-far-larger-than-polygon", fmt.Sprintf("%s with a box whose far sides are 1e11 and more away: area %v, true area %v (area of A %v)", op.name, got, op.want, areaA), detail)
	}
}
