// Package c01 monitors property C01: polygon boolean operations implement
// point-set semantics.
package c01

import (
	"fmt"
	"math"
	"math/big"
	"reflect"

	"github.com/ctessum/geom"

	"verifharness/internal/core"
	"verifharness/internal/exact"
	"verifharness/internal/gen"
)

func init() {
	core.Register(&core.Prop{
		ID: "C01",
		Rule: "case = one pair of valid polygonal operands in general position (operands with more than one ring are additionally presented as ONE polygon holding all rings in random order - a hole may precede its shell, as in the library's own Difference/Union results - half of those laid out as consecutive sub-slices of one backing array, and as a MultiPolygon whose members hold their rings in random order, sometimes with an empty member; star rings of 3-60 vertices (300 thorough) with 0-3 holes, rotated comb and staircase rings, multi-polygons of 2-4 disjoint members, boxes; configurations: operands differing in size by 10^3..10^6.3 (a triangle inside / in a hole of / next to a large shape), overlapping, B inside A, B inside a hole of A, A inside B, disjoint with overlapping bounding boxes, bounding-box-disjoint on one or both axes; random ring orientation/start/closure) run through all four operations plus the reverse difference for every receiver/argument presentation {Polygon, MultiPolygon, *Bounds}^2 the shapes admit; " +
			"each result is judged at <= 96 margin points by the harness's exact even-odd membership (A, B and result rings), by the inclusion-exclusion area identities (exact Operand areas, nesting-parity area of the result rings), ring closure and the empty-result rule; " +
			"phase huge_box: an ordinary operand and a box with 1-3 sides 1e11..1e300 away whose near sides cut through it, areas of Intersection / Difference against a Sutherland-Hodgman reference, all violations under one key (recorded defect of the external clipper); an evaluation is one operation result judged; non-trivial = Operand pair whose true intersection and both differences each contain a margin point (distinct by Operand hash)",
		Assumptions: []string{"operands validated by the harness: simple rings, holes inside shells, no vertex of one Operand within 1e-7*diameter of an edge of the other (general position with a margin) - except in the phase near_coincident, which drops the margin (only exact incidences rejected) and, like the phases tiny_magnitude (coordinates 1e-13..3e-7) and huge_magnitude (1e154..1e160), reports everything under one key: they exhibit defects of the external clipper listed in known_findings.json", "phase far_from_origin (figures 1e5..1e9 times their size away from the origin; from 1e8 on its violations go under one key, a recorded finding) judges membership only, at points 1e-5*diameter clear of the input edges: result vertices are rounded to the float64 spacing at the offset", "test points keep 1e-7*diameter clear of every input edge", "Polygonal.Area() of a result is compared only when its rings do not touch each other (geom documents hole detection as undefined there)"},
		Phases: []core.Phase{{Name: "ops", NumCases: func(t string) int {
			if t == "thorough" {
				return 120000
			}
			return 3200
		}}, {Name: "near_coincident", NumCases: func(t string) int {
			if t == "thorough" {
				return 6000
			}
			return 300
		}}, {Name: "tiny_magnitude", NumCases: func(t string) int {
			if t == "thorough" {
				return 6000
			}
			return 300
		}}, {Name: "far_from_origin", NumCases: func(t string) int {
			if t == "thorough" {
				return 20000
			}
			return 1500
		}}, {Name: "huge_magnitude", NumCases: func(t string) int {
			if t == "thorough" {
				return 6000
			}
			return 300
		}}, {Name: "huge_box", NumCases: func(t string) int {
			if t == "thorough" {
				return 60000
			}
			return 4000
		}}},
		Run: run,
		Floors: func(t string) map[string]int64 {
			m := map[string]int64{"cfg.overlapping": 200, "cfg.b_inside_a": 100, "cfg.b_inside_hole_of_a": 100, "cfg.a_inside_b": 100, "cfg.disjoint_bbox_overlap": 100,
				"cfg.bbox_disjoint_both_axes": 100, "cfg.bbox_disjoint_one_axis": 100, "cfg.box_corners_inside_concave": 100, "cfg.box_crossed_by_an_inlet_off_its_centre": 40, "cfg.tiny_next_to_huge": 100, "cfg.empty_operand": 100, "cfg.near_coincident": 150, "scale.1e-13..1e-10": 150, "scale.1e154..1e160": 150, "offset.1e5_sizes": 150, "offset.1e8_sizes": 150, "scale.1e-6..1e15": 150, "points.judged": 100000, "area.identities_checked": 1000, "area.method_compared": 1000, "result.empty_correct": 500, "kind.nested": 50, "kind.interlocked": 50, "presentation.rings_shuffled_into_one_polygon": 300, "huge_box.cases": 2000, "huge_box.box_cuts_through_A": 1000, "huge_box.as_polygon": 500}
			for _, a := range []string{"Polygon", "MultiPolygon", "*Bounds"} {
				for _, b := range []string{"Polygon", "MultiPolygon", "*Bounds"} {
					m["pair."+a+"x"+b] = 40
				}
			}
			return m
		},
	})
}

// Operand is a generated polygonal shape with its presentations.
type Operand struct {
	Polys []geom.Polygon // members (spelled)
	Box   *geom.Bounds   // non-nil when the shape is an axis-aligned rectangle
	Cx    float64
	Cy    float64
	Out   float64    // radius of a disc containing everything
	In    float64    // radius of a disc around the centre inside the shape (0 if unknown)
	Holes []gen.Disc // holes of a single star polygon
	Kind  string
	Rings [][]exact.P // all rings (open) for membership
	Area  *big.Rat    // exact area
	Empty bool        // the empty region, presented as Polygon{}, MultiPolygon{}, MultiPolygon{Polygon{}} and the empty box
	Isle  gen.Disc    // kind "interlocked": a disc that contains the small member lying in the bay of the large one
}

func rot(p geom.Path, cx, cy, th float64) geom.Path {
	co, si := math.Cos(th), math.Sin(th)
	o := make(geom.Path, len(p))
	for i, q := range p {
		dx, dy := q.X-cx, q.Y-cy
		o[i] = geom.Point{X: cx + co*dx - si*dy, Y: cy + si*dx + co*dy}
	}
	return o
}

func GenOperand(r *gen.R, cx, cy, rad float64, kind string, maxVerts int) Operand {
	o := Operand{Cx: cx, Cy: cy, Out: rad * 1.001, Kind: kind}
	switch kind {
	case "box":
		w, h := rad*r.Range(0.3, 0.7), rad*r.Range(0.3, 0.7)
		o.Box = &geom.Bounds{Min: geom.Point{X: cx - w, Y: cy - h}, Max: geom.Point{X: cx + w, Y: cy + h}}
		ring := geom.Path{{X: cx - w, Y: cy - h}, {X: cx + w, Y: cy - h}, {X: cx + w, Y: cy + h}, {X: cx - w, Y: cy + h}}
		o.Polys = []geom.Polygon{{gen.RespellRandom(r, ring)}}
		o.In = math.Min(w, h)
	case "star", "starholes":
		nh := 0
		if kind == "starholes" {
			nh = r.IntRange(1, 3)
		}
		sh := gen.StarPolygon(r, cx, cy, rad, r.IntRange(3, maxVerts), nh, 0)
		o.Polys = []geom.Polygon{sh.Poly}
		o.In = sh.InR
		o.Holes = sh.Holes
		if nh > 0 {
			o.In = 0
		}
	case "comb", "stair":
		s := rad / math.Sqrt2 * 0.98
		var ring geom.Path
		if kind == "comb" {
			ring = gen.Comb(r, cx-s, cy-s, 2*s, 2*s, r.IntRange(2, 8))
		} else {
			ring = gen.Staircase(r, cx-s, cy-s, 2*s, 2*s, r.IntRange(2, 8))
		}
		ring = rot(ring, cx, cy, r.Range(0, 2*math.Pi))
		o.Polys = []geom.Polygon{{gen.RespellRandom(r, ring)}}
	case "nested":
		// a polygon with holes and an island inside one of its holes (two members)
		sh := gen.StarPolygon(r, cx, cy, rad, r.IntRange(5, maxVerts), r.IntRange(1, 3), 0)
		o.Polys = []geom.Polygon{sh.Poly}
		for _, h := range sh.Holes {
			if r.Bool() || len(o.Polys) == 1 {
				nh := 0
				if r.Chance(0.3) {
					nh = 1
				}
				isl := gen.StarPolygon(r, h.X, h.Y, h.In*r.Range(0.3, 0.8), r.IntRange(3, 10), nh, 0)
				o.Polys = append(o.Polys, isl.Poly)
			}
		}
		o.Holes = nil
	case "interlocked":
		// two hole-free members whose bounding boxes overlap: a U-shaped member and a small one in
		// its bay (an island in a fjord), the U first half of the time; rotated as a whole
		s := rad / math.Sqrt2 * 0.98
		u := geom.Path{{X: cx - s, Y: cy - s}, {X: cx + s, Y: cy - s}, {X: cx + s, Y: cy + s}, {X: cx + s/3, Y: cy + s}, {X: cx + s/3, Y: cy - s/3}, {X: cx - s/3, Y: cy - s/3}, {X: cx - s/3, Y: cy + s}, {X: cx - s, Y: cy + s}}
		th := r.Range(0, 2*math.Pi)
		u = rot(u, cx, cy, th)
		ic := rot(geom.Path{{X: cx, Y: cy + s/3}}, cx, cy, th)[0]
		isl := gen.StarPolygon(r, ic.X, ic.Y, s*r.Range(0.1, 0.25), r.IntRange(3, 10), 0, 0)
		o.Polys = []geom.Polygon{{gen.RespellRandom(r, u)}, isl.Poly}
		if r.Bool() {
			o.Polys[0], o.Polys[1] = o.Polys[1], o.Polys[0]
		}
		o.Isle = gen.Disc{X: ic.X, Y: ic.Y, In: s * 0.25}
	case "multi":
		n := r.IntRange(2, 4)
		cells := r.Perm(4)
		s := rad / math.Sqrt2 * 0.98
		for k := 0; k < n; k++ {
			mx := cx + (float64(cells[k]%2)-0.5)*s
			my := cy + (float64(cells[k]/2)-0.5)*s
			nh := 0
			if r.Chance(0.3) {
				nh = r.IntRange(1, 2)
			}
			sh := gen.StarPolygon(r, mx, my, s*0.47, r.IntRange(3, 12), nh, 0)
			o.Polys = append(o.Polys, sh.Poly)
		}
	}
	o.finish()
	return o
}

// finish derives the exact rings and the exact even-odd area (shells minus holes; ring 0 of
// each member is the shell) from Polys.
func (o *Operand) finish() {
	o.Rings = gen.ERings(o.Polys)
	o.Area = new(big.Rat)
	for _, pg := range o.Polys {
		for i, ring := range pg {
			a := exact.AbsRat(exact.Area2(gen.EPath(gen.OpenRing(ring))))
			if i == 0 {
				o.Area.Add(o.Area, a)
			} else {
				o.Area.Sub(o.Area, a)
			}
		}
	}
	o.Area.Quo(o.Area, big.NewRat(2, 1))
}

type presentation struct {
	name string
	g    geom.Polygonal
}

func (o *Operand) presentations() []presentation {
	var ps []presentation
	if o.Empty {
		return []presentation{{"Polygon", geom.Polygon{}}, {"MultiPolygon", geom.MultiPolygon{}}, {"MultiPolygon", geom.MultiPolygon{geom.Polygon{}}}, {"*Bounds", geom.NewBounds()}}
	}
	if len(o.Polys) == 1 {
		ps = append(ps, presentation{"Polygon", o.Polys[0]})
	}
	ps = append(ps, presentation{"MultiPolygon", geom.MultiPolygon(o.Polys)})
	if o.Box != nil {
		ps = append(ps, presentation{"*Bounds", o.Box})
	}
	return ps
}

// shuffled is one more presentation of the operand: all rings of all members in ONE polygon in
// random order (a hole may come before its shell, as in the library's own results of
// Difference and Union), half of the time laid out as consecutive sub-slices of one backing
// array. Under the even-odd rule it is the same region.
func (o *Operand) shuffled(r *gen.R) presentation {
	var rings []geom.Path
	for _, pg := range o.Polys {
		rings = append(rings, pg...)
	}
	pg := make(geom.Polygon, len(rings))
	for i, k := range r.Perm(len(rings)) {
		pg[i] = rings[k]
	}
	if r.Bool() {
		return presentation{"Polygon", gen.InArena(pg).G.(geom.Polygon)}
	}
	return presentation{"Polygon", pg}
}

// shuffledMulti presents the operand as a MultiPolygon whose member polygons hold their rings in
// random order (hole before shell, as in results of the library itself wrapped in a MultiPolygon),
// sometimes with an empty polygon among the members.
func (o *Operand) shuffledMulti(r *gen.R) presentation {
	mp := make(geom.MultiPolygon, 0, len(o.Polys)+1)
	for _, pg := range o.Polys {
		q := make(geom.Polygon, len(pg))
		for i, k := range r.Perm(len(pg)) {
			q[i] = pg[k]
		}
		mp = append(mp, q)
	}
	if r.Chance(0.2) {
		i := r.Intn(len(mp) + 1)
		mp = append(mp[:i:i], append(geom.MultiPolygon{geom.Polygon{}}, mp[i:]...)...)
	}
	return presentation{"MultiPolygon", mp}
}

func (o *Operand) Contains(p exact.P) bool {
	return exact.PointInRings(p, o.Rings, 3) == exact.Inside
}

var opNames = []string{"Intersection", "Union", "Difference", "XOr", "ReverseDifference"}

func truth(op int, inA, inB bool) bool {
	switch op {
	case 0:
		return inA && inB
	case 1:
		return inA || inB
	case 2:
		return inA && !inB
	case 3:
		return inA != inB
	}
	return inB && !inA
}

func apply(op int, a, b geom.Polygonal) geom.Polygonal {
	switch op {
	case 0:
		return a.Intersection(b)
	case 1:
		return a.Union(b)
	case 2:
		return a.Difference(b)
	case 3:
		return a.XOr(b)
	}
	return b.Difference(a)
}

// resultRings extracts the rings of a result of any Polygonal type.
func resultRings(res geom.Polygonal) (rings []geom.Path, isNil bool, problem string) {
	if res == nil {
		return nil, true, ""
	}
	v := reflect.ValueOf(res)
	if (v.Kind() == reflect.Ptr || v.Kind() == reflect.Slice) && v.IsNil() {
		return nil, true, ""
	}
	if b, ok := res.(*geom.Bounds); ok {
		if b.Max.X < b.Min.X || b.Max.Y < b.Min.Y {
			return nil, false, fmt.Sprintf("inverted box %v", *b)
		}
	}
	for _, pg := range res.Polygons() {
		for _, ring := range pg {
			for _, p := range ring {
				if math.IsNaN(p.X) || math.IsNaN(p.Y) || math.IsInf(p.X, 0) || math.IsInf(p.Y, 0) {
					return nil, false, fmt.Sprintf("a ring with the non-finite vertex (%v, %v) from finite operands", p.X, p.Y)
				}
			}
			rings = append(rings, ring)
		}
	}
	return rings, false, ""
}

// nestedArea computes the even-odd area enclosed by rings that do not cross
// each other (they may touch at isolated points): sum of |area| with sign by
// nesting parity. ok is false if some ring's nesting could not be decided.
func nestedArea(rings [][]exact.P) (area float64, ok bool) {
	total := new(big.Rat)
	for i, ring := range rings {
		if len(ring) < 3 {
			continue
		}
		depth, decided := 0, false
		// probe points: vertices, then edge midpoints
		var probes []exact.P
		probes = append(probes, ring...)
		for k := range ring {
			a, b := ring[k], ring[(k+1)%len(ring)]
			probes = append(probes, exact.P{X: (a.X + b.X) / 2, Y: (a.Y + b.Y) / 2})
		}
	probe:
		for _, p := range probes {
			d := 0
			for j, other := range rings {
				if j == i || len(other) < 3 {
					continue
				}
				switch exact.PointInRings(p, [][]exact.P{other}, 3) {
				case exact.OnEdge:
					continue probe
				case exact.Inside:
					d++
				}
			}
			depth, decided = d, true
			break
		}
		if !decided {
			return 0, false
		}
		a := exact.AbsRat(exact.Area2(ring))
		if depth%2 == 0 {
			total.Add(total, a)
		} else {
			total.Sub(total, a)
		}
	}
	return exact.F(total) / 2, true
}

func ringsTouch(rings [][]exact.P, delta float64) bool {
	for i, a := range rings {
		for j, b := range rings {
			if i == j {
				continue
			}
			for _, p := range a {
				if exact.DistToRings(p, [][]exact.P{b}) <= delta {
					return true
				}
			}
		}
	}
	return false
}

func generalPosition(a, b *Operand, delta float64) bool {
	for _, ring := range a.Rings {
		for _, p := range ring {
			if exact.DistToRings(p, b.Rings) <= delta {
				return false
			}
		}
	}
	for _, ring := range b.Rings {
		for _, p := range ring {
			if exact.DistToRings(p, a.Rings) <= delta {
				return false
			}
		}
	}
	return true
}

var kinds = []string{"star", "star", "starholes", "starholes", "comb", "stair", "multi", "nested", "interlocked", "box", "box"}
var configs = []string{"empty_operand", "overlapping", "overlapping", "overlapping", "box_corners_inside_concave", "b_inside_a", "b_inside_hole_of_a", "a_inside_b", "disjoint_bbox_overlap", "bbox_disjoint_both_axes", "bbox_disjoint_one_axis", "tiny_next_to_huge"}

func run(c *core.Ctx, idx int) {
	if c.Phase == "huge_box" {
		runHugeBox(c)
		return
	}
	r := c.R
	maxVerts := 60
	if c.Thorough() && r.Chance(0.1) {
		maxVerts = 300
	}
	scale := math.Pow(10, r.Range(-2, 3))
	if c.Phase == "ops" && r.Chance(0.12) {
		// other magnitudes: micro-units to astronomical (everything below is relative to the scale)
		// (not below 1e-4: with the configuration that pairs operands differing in size by up to
		// 10^6.3 the smaller features must stay well above the clipper's absolute tolerance, which
		// the phase tiny_magnitude is about)
		scale = math.Pow(10, r.Range(-4, 15))
		c.Count("scale.1e-6..1e15")
	}
	if c.Phase == "tiny_magnitude" {
		// coordinates of magnitude 1e-13 .. 3e-7 (the clipper snaps with an absolute tolerance; the
		// first wrong results appear around 1e-7, below 1e-10 most results are wrong)
		scale = math.Pow(10, r.Range(-13, -6.5))
		c.Count("scale.1e-13..1e-10")
	}
	hugeBy := 0.0
	if c.Phase == "huge_magnitude" {
		// coordinates of magnitude 1e154 .. 1e160: the product of two coordinates overflows. The
		// figures are generated at unit scale and multiplied by an exact power of two afterwards.
		scale = 1
		hugeBy = math.Ldexp(1, r.IntRange(512, 532))
		c.Count("scale.1e154..1e160")
	}
	ox, oy := r.Range(-5, 5)*scale, r.Range(-5, 5)*scale
	farRatio := 0.0
	if c.Phase == "far_from_origin" {
		// figures 1e5 .. 1e9 times their own size away from the origin (a parcel in projected
		// coordinates is 1e5..1e7 away): the coordinates keep 7 to 11 significant digits of the shape
		f := math.Pow(10, r.Range(5, 9))
		farRatio = f
		ox, oy = f*scale*float64(1-2*r.Intn(2)), f*scale*r.Range(-1, 1)
		if r.Bool() {
			ox, oy = oy, ox
		}
		c.Count(fmt.Sprintf("offset.1e%d_sizes", int(math.Log10(f))))
	}
	cfg := configs[r.Intn(len(configs))]
	if c.Phase == "far_from_origin" || c.Phase == "huge_magnitude" {
		cfg = []string{"overlapping", "overlapping", "b_inside_a", "disjoint_bbox_overlap"}[r.Intn(4)]
	}
	if c.Phase == "tiny_magnitude" {
		cfg = []string{"overlapping", "b_inside_a", "disjoint_bbox_overlap"}[r.Intn(3)]
	}
	if c.Phase == "near_coincident" {
		cfg = "near_coincident"
	}
	// in the two extra phases every violation is reported under one key per phase: they exist to
	// document defects of the external clipper that geom passes its operands to unchanged
	violate := func(key, what string, detail map[string]interface{}) {
		switch c.Phase {
		case "near_coincident":
			key = "near-coincident-operands"
		case "tiny_magnitude":
			key = "tiny-magnitude-operands"
		case "huge_magnitude":
			key = "huge-magnitude-operands"
		case "far_from_origin":
			// 1e8 and more sizes away the coordinates keep 8 digits or fewer of the shape; the
			// clipper's results are then (rarely) wrong as a whole - a recorded finding; below 1e8
			// the phase is an ordinary one
			if farRatio >= 1e8 {
				key = "figures-1e8-and-more-sizes-from-the-origin"
			}
		}
		c.Violate(key, what, detail)
	}
	var a, b Operand
	ra := scale * r.Range(0.5, 1.5)
	gpDelta := -1.0
	switch cfg {
	case "empty_operand":
		// one operand is the empty region (an empty polygon, an empty multi-polygon, the empty box
		// that Bounds() of an empty geometry returns)
		a = GenOperand(r, ox, oy, ra, kinds[r.Intn(len(kinds))], maxVerts)
		b = Operand{Cx: ox, Cy: oy, Out: ra, Kind: "empty", Empty: true}
		b.finish()
		if r.Bool() {
			a, b = b, a
		}
	case "near_coincident":
		// B is A enlarged or shrunk by a factor 1 +- e about its centre and shifted by about e*radius,
		// e = 1e-12 .. 1e-7.5: no shared vertex, no collinear edges, but the boundaries run next to
		// each other everywhere
		a = GenOperand(r, ox, oy, ra, kinds[r.Intn(len(kinds))], maxVerts)
		e := math.Pow(10, r.Range(-12, -7.5))
		f, sx, sy := 1+e*r.Range(-1, 1), e*ra*r.Range(-1, 1), e*ra*r.Range(-1, 1)
		mv := func(p geom.Point) geom.Point {
			return geom.Point{X: ox + (p.X-ox)*f + sx, Y: oy + (p.Y-oy)*f + sy}
		}
		b = Operand{Cx: ox, Cy: oy, Out: a.Out * 1.001, Kind: a.Kind}
		for _, pg := range a.Polys {
			q := make(geom.Polygon, len(pg))
			for i, ring := range pg {
				q[i] = make(geom.Path, len(ring))
				for k, pt := range ring {
					q[i][k] = mv(pt)
				}
			}
			b.Polys = append(b.Polys, q)
		}
		if a.Box != nil {
			b.Box = &geom.Bounds{Min: mv(a.Box.Min), Max: mv(a.Box.Max)}
			ring := geom.Path{{X: b.Box.Min.X, Y: b.Box.Min.Y}, {X: b.Box.Max.X, Y: b.Box.Min.Y}, {X: b.Box.Max.X, Y: b.Box.Max.Y}, {X: b.Box.Min.X, Y: b.Box.Max.Y}}
			b.Polys = []geom.Polygon{{gen.RespellRandom(r, ring)}}
		}
		b.finish()
		if r.Bool() {
			a, b = b, a
		}
		gpDelta = 0 // only exact incidences are rejected
	case "overlapping":
		a = GenOperand(r, ox, oy, ra, kinds[r.Intn(len(kinds))], maxVerts)
		rb := ra * r.Range(0.4, 1.6)
		d := (ra + rb) * r.Range(0.1, 0.7)
		th := r.Range(0, 2*math.Pi)
		b = GenOperand(r, ox+d*math.Cos(th), oy+d*math.Sin(th), rb, kinds[r.Intn(len(kinds))], maxVerts)
	case "box_corners_inside_concave":
		// an axis-aligned box whose four corners lie inside A while a notch, a long thin hole or the
		// channel between two members of A passes through the box and no vertex of A lies in it
		var polys []geom.Polygon
		var bx geom.Bounds
		w := ra
		switch r.Intn(4) {
		case 3: // a thin inlet cut from the top edge down THROUGH the box, off its centre line
			nx := ox + w*r.Range(-0.5, 0.5) // the inlet's axis
			nw := w * r.Range(0.01, 0.05)   // its half-width at the top
			top := oy + w
			bx = geom.Bounds{Min: geom.Point{Y: oy - w*r.Range(0.1, 0.5)}, Max: geom.Point{Y: oy + w*r.Range(0.1, 0.5)}}
			tipY := bx.Min.Y - w*r.Range(0.05, 0.3)
			// the box reaches from nx - a to nx + b with a/(a+b) well away from 1/2
			span := w * r.Range(0.2, 0.45)
			f := r.Range(0.1, 0.35)
			if r.Bool() {
				f = 1 - f
			}
			bx.Min.X, bx.Max.X = nx-f*span, nx+(1-f)*span
			ring := geom.Path{{X: ox - w, Y: oy - w}, {X: ox + w, Y: oy - w}, {X: ox + w, Y: top}, {X: nx + nw, Y: top}, {X: nx + r.Range(-0.3, 0.3)*nw, Y: tipY}, {X: nx - nw, Y: top}, {X: ox - w, Y: top}}
			polys = []geom.Polygon{{gen.RespellRandom(r, ring)}}
			c.Count("cfg.box_crossed_by_an_inlet_off_its_centre")
		case 0: // two teeth of an upright comb
			teeth := r.IntRange(2, 5)
			tw := 2 * w / float64(2*teeth-1)
			ring := geom.Path{{X: ox - w, Y: oy - w}, {X: ox + w, Y: oy - w}}
			base := oy - w + 0.4*w
			for i := teeth - 1; i >= 0; i-- {
				xl := ox - w + float64(2*i)*tw
				top := oy + w*r.Range(0.5, 1)
				ring = append(ring, geom.Point{X: xl + tw, Y: base + r.Range(0, 0.02)*w}, geom.Point{X: xl + tw, Y: top}, geom.Point{X: xl, Y: top}, geom.Point{X: xl, Y: base + r.Range(0, 0.02)*w})
			}
			ring = append(ring[:2], ring[3:len(ring)-1]...) // the outermost base corners coincide with the frame
			polys = []geom.Polygon{{gen.RespellRandom(r, ring)}}
			i := r.Intn(teeth - 1)
			bx = geom.Bounds{Min: geom.Point{X: ox - w + float64(2*i)*tw + tw*r.Range(0.2, 0.8), Y: base + 0.1*w}, Max: geom.Point{X: ox - w + float64(2*i+2)*tw + tw*r.Range(0.2, 0.8), Y: oy + w*0.4}}
		case 1: // a long thin hole
			shell := geom.Path{{X: ox - w, Y: oy - w}, {X: ox + w, Y: oy - w}, {X: ox + w, Y: oy + w}, {X: ox - w, Y: oy + w}}
			hy := oy + w*r.Range(-0.3, 0.3)
			hole := geom.Path{{X: ox - 0.9*w, Y: hy - 0.03*w}, {X: ox + 0.9*w, Y: hy - 0.02*w}, {X: ox + 0.9*w, Y: hy + 0.03*w}, {X: ox - 0.9*w, Y: hy + 0.02*w}}
			polys = []geom.Polygon{{gen.RespellRandom(r, shell), gen.RespellRandom(r, hole)}}
			bx = geom.Bounds{Min: geom.Point{X: ox - w*r.Range(0.2, 0.7), Y: hy - w*r.Range(0.2, 0.5)}, Max: geom.Point{X: ox + w*r.Range(0.2, 0.7), Y: hy + w*r.Range(0.2, 0.5)}}
		default: // the channel between two members
			g := w * r.Range(0.02, 0.1)
			left := geom.Path{{X: ox - w, Y: oy - w}, {X: ox - g, Y: oy - w}, {X: ox - g*0.5, Y: oy + w}, {X: ox - w, Y: oy + w}}
			right := geom.Path{{X: ox + g, Y: oy - w}, {X: ox + w, Y: oy - w}, {X: ox + w, Y: oy + w}, {X: ox + g*1.5, Y: oy + w}}
			polys = []geom.Polygon{{gen.RespellRandom(r, left)}, {gen.RespellRandom(r, right)}}
			bx = geom.Bounds{Min: geom.Point{X: ox - w*r.Range(0.3, 0.8), Y: oy - w*r.Range(0.2, 0.8)}, Max: geom.Point{X: ox + w*r.Range(0.3, 0.8), Y: oy + w*r.Range(0.2, 0.8)}}
		}
		a = Operand{Polys: polys, Cx: ox, Cy: oy, Out: w * 1.5, Kind: "concave"}
		a.finish()
		bring := geom.Path{{X: bx.Min.X, Y: bx.Min.Y}, {X: bx.Max.X, Y: bx.Min.Y}, {X: bx.Max.X, Y: bx.Max.Y}, {X: bx.Min.X, Y: bx.Max.Y}}
		b = Operand{Polys: []geom.Polygon{{gen.RespellRandom(r, bring)}}, Box: &bx, Cx: (bx.Min.X + bx.Max.X) / 2, Cy: (bx.Min.Y + bx.Max.Y) / 2, Out: math.Hypot(bx.Max.X-bx.Min.X, bx.Max.Y-bx.Min.Y), Kind: "box"}
		b.finish()
		if r.Bool() {
			a, b = b, a
		}
	case "tiny_next_to_huge":
		// operands whose sizes differ by 10^3 .. 10^6.3 (a parcel against a country, a cell against
		// the world box): the small one - usually a triangle - strictly inside the big one, inside
		// one of its holes, or just outside it
		big := GenOperand(r, ox, oy, ra, []string{"star", "box", "starholes"}[r.Intn(3)], maxVerts)
		ratio := math.Pow(10, -r.Range(3, 6.3))
		mv := 3
		if r.Chance(0.4) {
			mv = r.IntRange(4, 8)
		}
		var sx, sy float64
		switch {
		case len(big.Holes) > 0 && r.Bool():
			h := big.Holes[r.Intn(len(big.Holes))]
			sx, sy = h.X+h.In*r.Range(-0.3, 0.3), h.Y+h.In*r.Range(-0.3, 0.3)
		case big.In > 0 && r.Chance(0.7):
			sx, sy = ox+big.In*r.Range(-0.5, 0.5), oy+big.In*r.Range(-0.5, 0.5)
		default:
			th := r.Range(0, 2*math.Pi)
			sx, sy = ox+ra*1.05*math.Cos(th), oy+ra*1.05*math.Sin(th)
		}
		sh := gen.StarPolygon(r, sx, sy, ra*ratio, mv, 0, 0)
		small := Operand{Polys: []geom.Polygon{sh.Poly}, Cx: sx, Cy: sy, Out: ra * ratio * 1.001, In: sh.InR, Kind: "tiny"}
		small.finish()
		a, b = big, small
		if r.Bool() {
			a, b = b, a
		}
	case "b_inside_a", "a_inside_b":
		outer := GenOperand(r, ox, oy, ra, []string{"star", "box", "star"}[r.Intn(3)], maxVerts)
		rb := outer.In * r.Range(0.3, 0.9)
		inner := GenOperand(r, ox, oy, rb, kinds[r.Intn(len(kinds))], maxVerts)
		if cfg == "b_inside_a" {
			a, b = outer, inner
		} else {
			a, b = inner, outer
		}
	case "b_inside_hole_of_a":
		a = GenOperand(r, ox, oy, ra, "starholes", maxVerts)
		h := a.Holes[r.Intn(len(a.Holes))]
		b = GenOperand(r, h.X, h.Y, h.In*r.Range(0.3, 0.9), []string{"star", "box", "comb", "multi", "starholes"}[r.Intn(5)], maxVerts)
	case "disjoint_bbox_overlap":
		a = GenOperand(r, ox, oy, ra, kinds[r.Intn(len(kinds)-2)], maxVerts)
		rb := ra * r.Range(0.5, 1.5)
		d := (ra + rb) * r.Range(1.02/math.Sqrt2*1.0, 0.98)
		if d*math.Sqrt2 < (ra+rb)*1.01 {
			d = (ra + rb) * 1.01 / math.Sqrt2
		}
		sx, sy := float64(1-2*r.Intn(2)), float64(1-2*r.Intn(2))
		b = GenOperand(r, ox+sx*d, oy+sy*d, rb, kinds[r.Intn(len(kinds)-2)], maxVerts)
	case "bbox_disjoint_both_axes", "bbox_disjoint_one_axis":
		a = GenOperand(r, ox, oy, ra, kinds[r.Intn(len(kinds))], maxVerts)
		rb := ra * r.Range(0.5, 1.5)
		dx := (ra + rb) * r.Range(1.05, 2)
		dy := (ra + rb) * r.Range(1.05, 2)
		if cfg == "bbox_disjoint_one_axis" {
			dy = (ra + rb) * r.Range(0, 0.3)
		}
		if r.Bool() {
			dx, dy = dy, dx
		}
		sx, sy := float64(1-2*r.Intn(2)), float64(1-2*r.Intn(2))
		b = GenOperand(r, ox+sx*dx, oy+sy*dy, rb, kinds[r.Intn(len(kinds))], maxVerts)
	}
	if hugeBy != 0 {
		for _, o := range []*Operand{&a, &b} {
			for _, pg := range o.Polys {
				for _, ring := range pg {
					for i := range ring {
						ring[i].X *= hugeBy
						ring[i].Y *= hugeBy
					}
				}
			}
			if o.Box != nil {
				o.Box = &geom.Bounds{Min: geom.Point{X: o.Box.Min.X * hugeBy, Y: o.Box.Min.Y * hugeBy}, Max: geom.Point{X: o.Box.Max.X * hugeBy, Y: o.Box.Max.Y * hugeBy}}
			}
			o.Cx, o.Cy, o.Out, o.In = o.Cx*hugeBy, o.Cy*hugeBy, o.Out*hugeBy, o.In*hugeBy
			o.Holes = nil
			o.finish()
		}
	}
	diam := 0.0
	minx, miny, maxx, maxy := math.Inf(1), math.Inf(1), math.Inf(-1), math.Inf(-1)
	for _, o := range []*Operand{&a, &b} {
		for _, ring := range o.Rings {
			for _, p := range ring {
				minx, miny, maxx, maxy = math.Min(minx, p.X), math.Min(miny, p.Y), math.Max(maxx, p.X), math.Max(maxy, p.Y)
			}
		}
	}
	diam = math.Hypot(maxx-minx, maxy-miny)
	delta := 1e-7 * diam
	if c.Phase == "far_from_origin" {
		// the vertices of a result are rounded to the spacing of float64 at the offset (up to
		// 1e-7 of the size): test points keep 1e-5 of the diameter clear of the input edges, and
		// only membership is judged (areas of results carry that rounding too)
		diam = math.Hypot(maxx-minx, maxy-miny)
		delta = 1e-5 * diam
	}
	if gpDelta < 0 {
		gpDelta = delta
	}
	if !generalPosition(&a, &b, gpDelta) {
		c.Count("rejected.not_general_position")
		return
	}
	// the bounding boxes decide which sub-category was really produced
	abb, bbb := geom.MultiPolygon(a.Polys).Bounds(), geom.MultiPolygon(b.Polys).Bounds()
	bbDisjoint := !abb.Overlaps(bbb)
	c.Count("cfg." + cfg)
	c.Count("kind." + a.Kind)
	c.Count("kind." + b.Kind)
	cfgClass := "bbox-overlap"
	if bbDisjoint {
		cfgClass = "bbox-disjoint"
	}

	// test points with a clear margin from every input edge
	var pts []exact.P
	var inA, inB []bool
	allRings := append(append([][]exact.P{}, a.Rings...), b.Rings...)
	add := func(p exact.P) {
		if exact.DistToRings(p, allRings) <= delta {
			c.Count("points.rejected_margin")
			return
		}
		pts = append(pts, p)
		inA = append(inA, a.Contains(p))
		inB = append(inB, b.Contains(p))
	}
	for k := 0; k < 48; k++ {
		add(exact.P{X: r.Range(minx, maxx), Y: r.Range(miny, maxy)})
	}
	for _, o := range []*Operand{&a, &b} {
		got := 0
		for tries := 0; tries < 200 && got < 24; tries++ {
			p := exact.P{X: o.Cx + r.Range(-1, 1)*o.Out, Y: o.Cy + r.Range(-1, 1)*o.Out}
			if o.Contains(p) {
				add(p)
				got++
			}
		}
	}
	witness := [5]bool{}
	for i := range pts {
		for op := 0; op < 5; op++ {
			if truth(op, inA[i], inB[i]) {
				witness[op] = true
			}
		}
	}
	hh := core.NewHasher()
	gen.HashGeom(hh, geom.MultiPolygon(a.Polys))
	gen.HashGeom(hh, geom.MultiPolygon(b.Polys))
	if witness[0] && witness[2] && witness[4] {
		c.Nontrivial(hh.Sum())
	}
	baseDetail := func() map[string]interface{} {
		return map[string]interface{}{"A": gen.Dump(geom.MultiPolygon(a.Polys)), "B": gen.Dump(geom.MultiPolygon(b.Polys)), "config": cfg, "kinds": a.Kind + "/" + b.Kind}
	}
	if c.WantSample() && witness[0] {
		c.Sample(baseDetail())
	}
	areaA, areaB := exact.F(a.Area), exact.F(b.Area)

	pas, pbs := a.presentations(), b.presentations()
	if len(a.Rings) > 1 {
		pas = append(pas, a.shuffled(r), a.shuffledMulti(r))
		c.Count("presentation.rings_shuffled_into_one_polygon")
	}
	if len(b.Rings) > 1 {
		pbs = append(pbs, b.shuffled(r), b.shuffledMulti(r))
		c.Count("presentation.rings_shuffled_into_one_polygon")
	}
	for _, pa := range pas {
		for _, pb := range pbs {
			c.Count("pair." + pa.name + "x" + pb.name)
			var areas [5]float64
			var areaOK [5]bool
			for op := 0; op < 5; op++ {
				c.Eval()
				opn := opNames[op]
				recvName, argName := pa.name, pb.name
				if op == 4 {
					recvName, argName = pb.name, pa.name
					opn = "Difference(reversed)"
				}
				detail := baseDetail()
				detail["operation"] = fmt.Sprintf("%s(%s).%s(%s)", "A", pa.name, opNames[op], pb.name)
				var res geom.Polygonal
				if c.Guard(fmt.Sprintf("%s:%s", opNames[op], cfgClass), detail, func() { res = apply(op, pa.g, pb.g) }) {
					continue
				}
				rings, isNil, problem := resultRings(res)
				detail["result"] = gen.Dump(res)
				if problem != "" {
					violate("result-malformed:"+opNames[op]+":"+cfgClass, fmt.Sprintf("%s.%s(%s) returned %s", recvName, opn, argName, problem), detail)
					continue
				}
				_ = isNil
				// closure (Polygon / MultiPolygon receivers)
				if recvName != "*Bounds" {
					for k, ring := range rings {
						if len(ring) > 0 && ring[0] != ring[len(ring)-1] {
							violate("unclosed-ring:"+opNames[op], fmt.Sprintf("%s.%s(%s): result ring %d is not closed", recvName, opn, argName, k), detail)
							break
						}
					}
				}
				er := make([][]exact.P, 0, len(rings))
				for _, ring := range rings {
					er = append(er, gen.EPath(gen.OpenRing(ring)))
				}
				empty := true
				for _, ring := range er {
					if len(ring) >= 3 {
						empty = false
					}
				}
				// membership at the margin points
				bad := -1
				withinBad := -1
				for i, p := range pts {
					want := truth(op, inA[i], inB[i])
					got := exact.PointInRings(p, er, 3)
					c.Count("points.judged")
					if (got == exact.Inside) != want {
						bad = i
						break
					}
					if !empty {
						w := geom.Point{X: p.X, Y: p.Y}.Within(res)
						if (w == geom.Inside) != want {
							withinBad = i
						}
					}
				}
				if bad >= 0 {
					p := pts[bad]
					kind := "member"
					if empty && witness[op] {
						kind = "empty-result"
					}
					detail["point"] = []float64{p.X, p.Y}
					detail["in_A"], detail["in_B"] = inA[bad], inB[bad]
					violate(fmt.Sprintf("%s:%s:%s", kind, opNames[op], cfgClass),
						fmt.Sprintf("%s.%s(%s) [%s, %s/%s]: point (%v,%v) in A=%v in B=%v but in result=%v", recvName, opn, argName, cfg, a.Kind, b.Kind, p.X, p.Y, inA[bad], inB[bad], !truth(op, inA[bad], inB[bad])), detail)
					continue
				}
				if withinBad >= 0 {
					p := pts[withinBad]
					detail["point"] = []float64{p.X, p.Y}
					violate("within-on-result:"+opNames[op], fmt.Sprintf("Point.Within(result of %s) disagrees with the even-odd membership of the result rings at (%v,%v)", opn, p.X, p.Y), detail)
				}
				if empty && !witness[op] {
					c.Count("result.empty_correct")
				}
				// result area by nesting parity
				ar, ok := nestedArea(er)
				areas[op], areaOK[op] = ar, ok
				if ok && !empty && !ringsTouch(er, delta) && c.Phase != "far_from_origin" {
					c.Count("area.method_compared")
					var got float64
					if !c.Guard("Area(result)", detail, func() { got = res.Area() }) {
						if math.Abs(got-ar) > 1e-9*(areaA+areaB) {
							violate("area-method:"+opNames[op], fmt.Sprintf("Area() of the %s result = %v, its rings enclose %v", opn, got, ar), detail)
						}
					}
				}
			}
			// inclusion-exclusion identities over the five results
			allOK := true
			for _, ok := range areaOK {
				allOK = allOK && ok
			}
			if allOK && c.Phase != "far_from_origin" {
				c.Count("area.identities_checked")
				tol := 1e-9 * (areaA + areaB)
				I, U, D, X, Dr := areas[0], areas[1], areas[2], areas[3], areas[4]
				chk := func(name string, lhs, rhs float64) {
					if math.Abs(lhs-rhs) > tol {
						d := baseDetail()
						d["areas"] = map[string]float64{"A": areaA, "B": areaB, "I": I, "U": U, "D": D, "X": X, "Dr": Dr}
						violate("area-identity:"+name+":"+cfgClass, fmt.Sprintf("%s violated for %s x %s: %v vs %v", name, pa.name, pb.name, lhs, rhs), d)
					}
				}
				chk("area(I)+area(A-B)=area(A)", I+D, areaA)
				chk("area(I)+area(B-A)=area(B)", I+Dr, areaB)
				chk("area(U)=area(A)+area(B)-area(I)", U, areaA+areaB-I)
				chk("area(X)=area(U)-area(I)", X, U-I)
			}
		}
	}
}
