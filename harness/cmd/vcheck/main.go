// Command vcheck drives the runtime monitors for ctessum/geom.
package main

import (
	"flag"
	"fmt"
	"os"
	"strconv"
	"time"

	"verifharness/internal/c09"
	"verifharness/internal/core"
	_ "verifharness/internal/props"
)

func main() {
	if len(os.Args) < 2 {
		fmt.Fprintln(os.Stderr, "usage: vcheck run|worker|replay|list …")
		os.Exit(2)
	}
	switch os.Args[1] {
	case "list":
		for _, id := range core.IDs() {
			fmt.Println(id)
		}
	case "run":
		fs := flag.NewFlagSet("run", flag.ExitOnError)
		prop := fs.String("prop", "", "property id")
		tier := fs.String("tier", "quick", "quick|thorough")
		seed := fs.Int64("seed", envSeed(), "VERIF_SEED")
		raceBin := fs.String("racebin", "", "race-instrumented worker binary")
		work := fs.String("work", "", "scratch dir")
		wd := fs.Duration("watchdog", 0, "per-worker wall-clock watchdog (inconclusive when it fires)")
		fs.Parse(os.Args[2:])
		if *wd == 0 {
			*wd = 40 * time.Minute
			if *tier == "thorough" {
				*wd = 6 * time.Hour
			}
		}
		os.Exit(core.ParentMain(core.RunOptions{PropID: *prop, Tier: *tier, Seed: *seed, Bin: os.Args[0],
			RaceBin: *raceBin, WorkDir: *work, Watchdog: *wd}))
	case "worker":
		fs := flag.NewFlagSet("worker", flag.ExitOnError)
		prop := fs.String("prop", "", "")
		tier := fs.String("tier", "quick", "")
		seed := fs.Int64("seed", 1, "")
		phase := fs.String("phase", "", "")
		shard := fs.Int("shard", 0, "")
		nshards := fs.Int("nshards", 1, "")
		out := fs.String("out", "", "")
		journal := fs.String("journal", "", "")
		fs.Parse(os.Args[2:])
		os.Exit(core.WorkerMain(*prop, *tier, *seed, *phase, *shard, *nshards, *out, *journal))
	case "gen-corpus":
		n := 3000
		if len(os.Args) > 3 {
			n, _ = strconv.Atoi(os.Args[3])
		}
		if err := c09.GenCorpus(os.Args[2], n); err != nil {
			fmt.Fprintln(os.Stderr, err)
			os.Exit(1)
		}
	case "replay":
		if len(os.Args) < 3 {
			fmt.Fprintln(os.Stderr, "usage: vcheck replay <file>")
			os.Exit(2)
		}
		os.Exit(core.ReplayMain(os.Args[2]))
	default:
		fmt.Fprintln(os.Stderr, "unknown command", os.Args[1])
		os.Exit(2)
	}
}

func envSeed() int64 {
	if s := os.Getenv("VERIF_SEED"); s != "" {
		if v, err := strconv.ParseInt(s, 10, 64); err == nil {
			return v
		}
	}
	return 1
}
