module verifharness

go 1.21

require github.com/ctessum/geom v0.0.0

require (
	github.com/ctessum/polyclip-go v1.1.0 // indirect
	github.com/gonum/floats v0.0.0-20181209220543-c233463c7e82 // indirect
	github.com/gonum/internal v0.0.0-20181124074243-f884aa714029 // indirect
	gonum.org/v1/gonum v0.9.3 // indirect
)

replace github.com/ctessum/geom => /repo
