module verifharness

go 1.21

require (
	github.com/ctessum/geom v0.0.0
	github.com/jonas-p/go-shp v0.1.2-0.20190401125246-9fd306ae10a6
	github.com/paulmach/osm v0.1.1
)

require (
	github.com/ctessum/polyclip-go v1.1.0 // indirect
	github.com/gogo/protobuf v1.3.1 // indirect
	github.com/gonum/floats v0.0.0-20181209220543-c233463c7e82 // indirect
	github.com/gonum/internal v0.0.0-20181124074243-f884aa714029 // indirect
	github.com/paulmach/orb v0.1.6 // indirect
	golang.org/x/exp v0.0.0-20191002040644-a1355ae1e2c3 // indirect
	golang.org/x/sync v0.0.0-20200625203802-6e8e738ad208 // indirect
	gonum.org/v1/gonum v0.9.3 // indirect
)

replace github.com/ctessum/geom => /repo
