// JSON-lines driver around a pristine copy of proj4js 2.3.12 (MIT), used as
// the "original" oracle of property C09 (and for recording the corpus).
// request : {"id":n,"src":"+proj=…","dst":"+proj=…","pts":[[x,y],…]}
//           {"id":n,"tables":true}  -> constant tables
//           {"id":n,"parse":"+proj=…"} -> derived fields of one definition
// response: {"id":n,"out":[[x,y]|null,…]} or {"id":n,"err":"…"}
'use strict';
var Module = require('module');
var origLoad = Module._load;
Module._load = function (request) {
  if (request === 'mgrs') {
    return { forward: function () { return ''; }, inverse: function () { return [0, 0, 0, 0]; }, toPoint: function () { return [0, 0]; } };
  }
  return origLoad.apply(this, arguments);
};
var path = require('path');
var lib = path.join(__dirname, 'third_party', 'proj4js-2.3.12', 'lib');
var proj4 = require(path.join(lib, 'index.js'));
var Proj = require(path.join(lib, 'Proj.js'));

function num(v) { return (typeof v === 'number' && isFinite(v)) ? v : null; }

function handle(req) {
  if (req.tables) {
    return {
      id: req.id,
      ellipsoid: require(path.join(lib, 'constants', 'Ellipsoid.js')),
      datum: require(path.join(lib, 'constants', 'Datum.js')),
      pm: require(path.join(lib, 'constants', 'PrimeMeridian.js')),
      units: require(path.join(lib, 'constants', 'units.js'))
    };
  }
  if (req.parse !== undefined) {
    var p = new Proj(req.parse);
    return { id: req.id, a: num(p.a), b: num(p.b), rf: num(p.rf), es: num(p.es), datum_params: p.datum_params ? Array.prototype.map.call(p.datum_params, parseFloat) : null,
      from_greenwich: num(p.from_greenwich), to_meter: num(p.to_meter), k0: num(p.k0), sphere: !!p.sphere, datumCode: p.datumCode || null };
  }
  var src = new Proj(req.src), dst = new Proj(req.dst);
  var out = [];
  for (var i = 0; i < req.pts.length; i++) {
    try {
      var r = proj4(src, dst, [req.pts[i][0], req.pts[i][1]]);
      if (!r || typeof r[0] !== 'number' || typeof r[1] !== 'number' || !isFinite(r[0]) || !isFinite(r[1])) {
        out.push(null);
      } else {
        out.push([r[0], r[1]]);
      }
    } catch (e) {
      out.push(null);
    }
  }
  return { id: req.id, out: out };
}

var rl = require('readline').createInterface({ input: process.stdin, terminal: false });
rl.on('line', function (line) {
  if (!line.trim()) { return; }
  var req, res;
  try {
    req = JSON.parse(line);
    res = handle(req);
  } catch (e) {
    res = { id: req ? req.id : -1, err: String(e && e.message ? e.message : e) };
  }
  process.stdout.write(JSON.stringify(res) + '\n');
});
