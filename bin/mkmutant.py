#!/usr/bin/env python3
"""mkmutant.py <name> <repo-relative-file> <old> <new> [<file> <old> <new> ...] -> mutants/<name>.diff (unified, -p1)"""
import sys, difflib, os
name = sys.argv[1]
args = sys.argv[2:]
out = []
for i in range(0, len(args), 3):
    f, old, new = args[i], args[i+1], args[i+2]
    src = open('/repo/' + f).read()
    if src.count(old) != 1:
        sys.exit("%s: pattern occurs %d times in %s" % (name, src.count(old), f))
    dst = src.replace(old, new)
    out += list(difflib.unified_diff(src.splitlines(True), dst.splitlines(True), 'a/' + f, 'b/' + f))
open(os.path.join(os.path.dirname(os.path.dirname(os.path.abspath(__file__))), 'mutants', name + '.diff'), 'w').write(''.join(out))
print("wrote mutants/%s.diff" % name)
