#!/usr/bin/env python3
"""Regenerates MANIFEST.json from the table below (keeps it schema-valid)."""
import json, os, subprocess, sys
HERE = os.path.dirname(os.path.dirname(os.path.abspath(__file__)))

# id -> (technique, level text, level note, design ref)
CHECKS = {
 "C01": ("runtime monitor: exact even-odd point-set membership oracle + inclusion-exclusion area identities over generated operand pairs and all receiver/argument types",
         "Generated valid operand pairs in general position (all seven relative configurations, all nine receiver/argument type pairs the shapes admit) are run through Intersection/Union/Difference/XOr (+ reverse difference); each result is judged at up to 96 margin points by the harness's own exact even-odd membership, by the four inclusion-exclusion area identities with exact operand areas, by ring closure, by the empty-result rule, and Polygonal.Area()/Point.Within on results are compared with the harness's values.",
         "Operand validity and general position are enforced by the harness's exact predicates; membership is only judged at points with a 1e-7*diameter margin; the external clipper is exercised through geom's API only. Three extra phases (near-coincident operands, coordinates of magnitude 1e-13..1e-10, coordinates of magnitude 1e154..1e160) exhibit three defects of that clipper; they are listed in known_findings.json, print KNOWN-FINDING and do not fail the run.", "§4 C01"),
 "C02": ("runtime monitor: exact integer/rational crossing-number and on-segment oracle; complete enumeration of a small grid sub-space in the thorough tier",
         "Every point of the half-integer grid is classified against unfiltered grid polygons (self-intersecting, degenerate, unclosed, clockwise, multi-ring, multi-member, boxes) and compared with an exact oracle; float polygons (including edges whose end ordinates differ by one ulp from the query ordinate) are judged at margin points in exact rational arithmetic; MultiPoint/LineString/MultiLineString/Polygon receivers are checked against 'Outside iff some vertex is Outside'. Thorough additionally enumerates all triangles and quadrilaterals on the 4x4 grid against all 49 half-grid points.",
         "Exactness of the oracle rests on math/big and a Shewchuk-style float filter; a ring counts when it stores >= 3 vertices.", "§4 C02"),
 "C03": ("runtime monitor: exact rational (math/big) area/centroid/length/distance references over the spelling orbit of generated valid shapes",
         "Valid lattice polygons and multi-polygons are explored over their reversal x rotation x closure orbit (complete for <= 3 rings) and a float similarity image; Area must equal the exact rational area (== on the grid), centroids the exact area-weighted centroid, Length/Distance 200-bit references, Buffer the regular n-gon; op.Area/op.Centroid/op.Length under their documented preconditions. A phase extreme_magnitude multiplies the lattice figures by 2^k (k in -1000..-300 and 300..1010, exact) and judges the three Centroid functions against the exact centroid scaled by 2^k.",
         "Centroid of Polygon/op only under the property's preconditions (closed, alternating winding); float images keep translation <= 10x size (up to 1e6 x size with a conditioning slack). Areas are not asked for beyond 1e150 in size, where the area itself leaves the float64 range.", "§4 C03"),
 "C04": ("runtime monitor: harness flattening / min-max fold / lattice-law oracle over generated geometries and box triples",
         "Every generated geometry (8 types, empty members, nested collections, special float values) is run through Points/Len/Bounds under recover() and compared with an independent flattening and min/max fold; box pairs/triples are judged against the join/overlap/intersection model. Held on the executions produced, not a proof.",
         "Trusts the harness's own flattening (30 lines) and IEEE min/max; NaN coordinates and non-canonical empty boxes are outside the quantifier.", "§4 C04"),
 "C05": ("runtime monitor: differential against an independent OGC WKB serializer + bitwise round-trip oracle",
         "Every generated geometry (7 types, arbitrary 64-bit coordinate patterns, empty members, collections nested to depth 6/50) is encoded in both byte orders and compared byte-for-byte with an independently written OGC 06-103r4 serializer; reference bytes (uniform and mixed byte order per element) are decoded and compared bitwise; streams and the hex codec are checked the same way.",
         "Trusts the harness's 100-line reference serializer and its reading of the OGC layout; 2-D geometries only.", "§4 C05"),
 "C06": ("runtime monitor: bitwise round-trip oracle + independent RFC 7946 shape walk of the JSON text",
         "Every generated geometry (6 types, finite bit-pattern coordinates, empty later members) is encoded, its text is walked independently (type name, nesting depth, [x,y] arity and order, exact numeral value) and decoded back to a bitwise-equal geometry; unsupported types and non-finite coordinates must produce errors.",
         "Trusts encoding/json as tokenizer for the shape walk; quantifier restricted to first-member-non-empty geometries as the property states.", "§4 C06"),
 "C07": ("runtime monitor: panic monitor + exact heap-allocation accounting (ReadMemStats deltas) + RLIMIT_AS child processes + re-encode fixpoint over mutation families",
         "Hostile inputs (every truncation, bit flips, every count field inflated up to 2^32-1, bad type/byte-order codes, 7000-level nesting, random bytes, malformed hex, grammar-generated JSON with arbitrary coordinates shapes, hand-built Geometry values) are fed to the decoders; each call must return a well-formed geometry or an error, allocate <= K*len+C bytes, never panic or kill the process, and successful decodes must be fixpoints of encode/decode.",
         "'Bounded by a constant multiple' is decided in the restated form dAlloc <= 64*len+64KiB (WKB/hex), 256*len+64KiB (GeoJSON); inputs <= 64 KiB.", "§4 C07"),
 "C08": ("runtime monitor: round-trip oracle (inverse∘forward and forward∘inverse∘forward) over generated CRS definitions and positions, fresh SR objects per call",
         "Every projection form with parameters in its documented validity, every built-in ellipsoid name (incl. sphere) plus a+b / a+rf, datum none/named/towgs84, units and prime meridians is round-tripped at positions of its usable region against the same-datum geographic system and, inside area-of-use boxes or with small shifts on WGS84-like ellipsoids, against WGS84; tolerance 1e-6 deg and 1 cm (judged on the ground when a datum shift is involved), no error anywhere; the (*SR).Transformers() closure pair is checked in radians.",
         "WGS84 partner restricted to areas of use (dropped ellipsoidal height); random towgs84 small (first-order inverse of the Helmert shift); longitudes inside (-180,180).", "§4 C08"),
 "C09": ("runtime monitor: differential against proj4js 2.3.12 executed live under node + recorded corpus; independent Snyder/Karney-Krueger/Helmert reference formulas; constant-table comparison",
         "Generated transformations (geographic->projected, projected->geographic, projected->projected across datums; named / 3- / 7-parameter / no datum; m/ft/us-ft/to_meter; prime meridians) are executed by the port and by the bundled proj4js original (live under node, and replayed from a committed corpus of 6900 recorded scenarios) and must agree to 0.1 mm / 1e-9 deg; forward projections must agree within 5 mm with formulas written independently from the literature; every built-in ellipsoid/datum/prime-meridian/unit entry must equal proj4js's constants.",
         "node is used when present (coverage.counters oracle.live_workers), otherwise corpus only; oracle B excludes spherical transverse Mercator (proj4js quirk, A authoritative), restricts flattening to real-ellipsoid range and the equidistant conic to 20 deg around its parallels (series truncation shared with the original).", "§4 C09"),
 "C10": ("runtime monitor: history oracle (shared transformer vs freshly built single-use transformer after every call) + instrumented/failing transformers for Geom.Transform on all 8 types",
         "Transformers built once for pairs of references (WGS84-hop pairs, non-default +axis, ordinary) are driven through random interleaved call histories and every result is compared (4 ulp, error outcome, no panic) with a transformer built from freshly parsed definitions; Geom.Transform is checked with a logging affine transformer (type/nesting/vertex order/bitwise image/input untouched), nil (identity), a transformer failing on every possible k-th call (exact error, no panic) and a real datum-shifting transformer vertex by vertex.",
         "Histories are sequential (concurrent use of one transformer is not claimed).", "§4 C10"),
 "C11": ("runtime monitor: brute-force multiset reference model + invariant walker on hooked node structure after every operation of generated insert/delete histories",
         "Histories (grow, drain to empty, refill, oscillation around split/underflow sizes, ordered/reverse/random deletes, absent and duplicate objects) for all valid branching parameters are run against the real tree; after EVERY operation Size/Delete results/6 SearchIntersect queries are compared with a brute-force multiset scan and the verif-tagged snapshot of the nodes is walked for balance, Depth, exact envelopes, fan-out and object count.",
         "Needs hook H1 (read-only snapshot, build tag verif); objects comparable as the property states; parent/level consistency recorded only.", "§4 C11"),
 "C12": ("runtime monitor: brute-force k-smallest-distance oracle on trees produced by insert/delete histories (walker-confirmed shapes)",
         "NearestNeighbor and NearestNeighbors(k) for k in {1,2,3,5,Size-1,Size,Size+3} are queried at points inside boxes, on borders/corners, outside the root box and far away on trees reached by C11-style histories; results must be stored objects, distinct as multiset elements, in non-decreasing distance order, with exactly the k smallest box distances, nil beyond Size.",
         "Ties compared by distance (1e-12 relative); tree-shape coverage (depth, root collapses) taken from hook H1.", "§4 C12"),
 "C13": ("runtime monitor: bounded-progress step hook + exact subsequence/tolerance/simplicity oracles over generated curves",
         "Curves of 0..400 pairwise-distinct vertices (simple walks, hooks returning to the start, spirals, zigzags, near-collinear runs, unfiltered random lines) are simplified with tolerances {0, tiny, U(0,d), >d, +Inf}; the hooked loop counter turns non-termination into a finite violation; outputs must be order-preserving subsequences keeping both endpoints, dropped vertices within tolerance of their replacing segment (extended precision), exactly simple when the input is exactly simple, input untouched, members of multi-geometries simplified independently.",
         "Needs hook H3; 'terminates' decided as bounded progress (<= 4n^2+100 loop steps, output never longer than input).", "§4 C13"),
 "C14": ("runtime monitor: harness reference clipping (exact crossing tests + midpoint membership) as oracle",
         "Simple lines / multi-lines against valid polygons with holes, multi-polygons and boxes in general position: total clipped length must equal the reference inside length (1e-9), every returned vertex must lie on the line and inside or on the polygon (1e-9 d), the result is empty exactly when the reference length is 0; configurations inside/outside/bbox-disjoint/hole-crossing/multiple entries are counted.",
         "General position and line simplicity enforced by exact predicates in the harness. The extra phases through_vertex (integer grid, a line segment exactly through a polygon vertex) and tiny_magnitude (coordinates 1e-13..1e-10) exhibit defects of the external clipper; they are listed in known_findings.json, print KNOWN-FINDING and do not fail the run.", "§4 C14"),
 "C15": ("runtime monitor: truth-by-construction oracle (perturbation / permutation / rotation positives; typed, structural and displacement negatives) + symmetry check",
         "For base geometries of all eight types, derived partners with a known truth value are compared in both directions: true for <0.9 tol perturbations combined with documented reorderings and ring rotations; false for other types, inserted/deleted members (incl. empty ones) or vertices, reversed line strings, single-vertex displacements > tol; g.Similar(h) must equal h.Similar(g) always.",
         "Members separated by >> tol, closed rings with a unique anchor vertex (domain restrictions stated by the property).", "§4 C15"),
 "C18": ("runtime monitor: sequential least-fixpoint reference model + schedule exploration through hooked schedule points (free GOMAXPROCS sweep, perturbation, forced adversarial windows) + Go race detector",
         "Generated OSM documents (any element order, shared nodes, relation chains and cycles, dangling references) are extracted with KeepTags/KeepBounds/KeepAll under ~12 schedules each (GOMAXPROCS 1/2/4/16 free, hook-driven yields/sleeps, and forced windows that hold a referent's store until its dependant has been judged); every result must equal the least closed set computed by a sequential model, pass Check() unless the document dangles, be identical across runs; Filter must equal the model on its input, be idempotent, a subset and closed. The same workload runs under -race and reports in geom/encoding/osm are violations. Thorough adds the bundled Honolulu PBF against a model built from a direct scan.",
         "Needs hook H2 (schedule points, build tag verif). Schedules are sampled/forced, not exhausted; the evidence reports distinct hook traces and how many runs actually contained the window.", "§4 C18"),
 "C19": ("runtime monitor: harness graph model + Dijkstra as oracle over generated link networks",
         "Networks of 2-300 nodes (trees, grids with diagonals, two components, cheap-detour and fast-ring configurations; bendy links, speeds over two decades, random insertion order/orientation) are queried for Distance and Time; start/end nodes must be the true nearest nodes, returned links must chain from start to end node, totals must equal the sums over the returned links, the chosen cost must equal the harness Dijkstra optimum (1e-9), disconnected pairs give an empty route.",
         "No self loops or parallel links; queries with an ambiguous nearest node are skipped; returned links are identified by slice identity. A phase unrepresentable_cost (connected nodes whose every chain costs +Inf in float64: a positive subnormal speed, two links of 1e308) exhibits a recorded limitation (known_findings.json, one key), prints KNOWN-FINDING and does not fail the run.", "§4 C19"),
 "C20": ("runtime monitor: pairwise transformer agreement between harness-printed PROJ.4 and WKT spellings of one system; registry/Equal/nil-transformer laws; .prj read-back",
         "Generated systems (5 WKT projection names + geographic; spheroid by a,1/f; TOWGS84 3/7/none; metre/foot/US foot; ESRI and OGC parameter names) are printed both ways by the harness and must transform identically (1e-6 m forward, 1e-11 deg inverse, also in mixed pairs); registered names must behave as their published definitions; same text parsed twice is Equal; NewTransform is nil exactly when Equal(…,3) for identical / 1-ulp / 1e-9 / name / units / datum-parameter-count variants, without panicking; (*shp.Decoder).SR() equals proj.Parse of the .prj text.",
         "Definitions without TOWGS84 are compared from the same-spheroid geographic system spelled both ways (WKT DATUM without TOWGS84 and +a +rf without +datum are different datum statements).", "§4 C20"),
 "C16": ("runtime monitor: record-list reference model; bitwise geometry comparison; attribute rules; reflect-built archetype structs for column-order coverage",
         "Files of 0-300 records of every supported geometry kind with 1-6 attribute columns in random order are written through both encoder APIs (archetype structs built with reflect.StructOf, shp tags and bare mixed-case names; field lists) and read back through DecodeRow (differently cased names/tags; geometry field of the interface type or, for 40% of the files, of the concrete type written) and DecodeRowFields; count, order, documented geometry images with bitwise coordinates, ints, floats to 10 decimals and strings must equal the records written, Error() must be nil.",
         "go-shp's trimming of leading blanks is a recorded known finding (key string:edge-blanks-trimmed); nil geometries are outside the property and not generated.", "§4 C16"),
 "C17": ("runtime monitor: independent OGC WKT recursive-descent parser as oracle, bitwise comparison",
         "The text produced for every generated geometry of the five supported types must be accepted by an independently written strict OGC tagged-text parser and parse to a bitwise-identical geometry; MultiPoint, GeometryCollection and *Bounds must be rejected with an error.",
         "Trusts the harness's 200-line WKT parser and strconv.ParseFloat; members with >= 1 vertex only (as the property states).", "§4 C17"),
}
PENDING = {}
ALL = ["C%02d" % i for i in range(1, 21)]

def main():
    hooks = []
    hf = os.path.join(HERE, "MANIFEST.hooks")
    if os.path.exists(hf):
        hooks = [l.split()[0] for l in open(hf) if l.strip() and not l.startswith("#")]
    checks = []
    for pid in ALL:
        if pid not in CHECKS:
            continue
        tech, text, note, ref = CHECKS[pid]
        checks.append({
            "property_id": pid,
            "quick_cmd": "bin/check %s quick" % pid,
            "thorough_cmd": "bin/check %s thorough" % pid,
            "evidence_file": "evidence/%s.json" % pid,
            "replay_cmd_template": "bin/check %s replay {path}" % pid,
            "engine": "vcheck",
            "level_claimed": {"category": "exploration", "text": text, "design_ref": ref},
            "level_note": note,
            "technique": tech,
        })
    na = [{"property_id": p, "reason": PENDING.get(p, "monitor not yet built in this session (planned in DESIGN.md §4); not claimed until its check exists")} for p in ALL if p not in CHECKS]
    m = {
        "version": 1,
        "setup_cmd": "bin/setup",
        "hooks": {
            "guard": "verif",
            "enable": "go build -tags verif (bin/check builds harness/cmd/vcheck against /repo's working tree with the tag on)",
            "baseline_off_cmd": "cd /repo && GOFLAGS=-mod=mod GOPROXY=off GOSUMDB=off GOTOOLCHAIN=local go test -vet=off -count=1 -timeout 25m ./...",
            "source_commits": hooks,
            "add_only": True,
        },
        "engines": [{"name": "vcheck", "path": "harness/cmd/vcheck", "serves_properties": sorted(CHECKS),
                     "kind_free_text": "Go monitor harness: PRNG-determined case lists sharded over child processes; reference-model, exact-arithmetic and differential oracles; invariant hooks behind the verif build tag; Go race detector for C18"}],
        "checks": checks,
        "not_applicable": na,
        "notes": "All checks are runtime monitors over generated workloads (see DESIGN.md). exit 0 held / 1 VIOLATION / 3 INCONCLUSIVE. known_findings.json lists recorded and fixed defects.",
    }
    json.dump(m, open(os.path.join(HERE, "MANIFEST.json"), "w"), indent=1)
    print("wrote MANIFEST.json with", len(checks), "checks")

if __name__ == "__main__":
    main()
